// c40: replays every case of spec/consensus/HeaderValidation.tla on the real
// block builder and validators.
//
// A case = consensus layout (Praos / TPraos) x KES period offset x mutation.
// The driver holds real keys (cold Ed25519, KES depth 6, VRF), builds the
// header with consensus.BlockBuilder.BuildHeader (active-slot coefficient 1, so
// a pool with stake always leads), applies the case's mutation to the built
// header ("tamper": nothing re-signed) or builds from one changed input with
// everything the hot-key holder can sign re-signed ("insider"), writes the
// header and an (empty) block in the era's wire format, decodes them with the
// ledger decoders as a receiving node would, fills ValidateHeaderInput from the
// decoded header and calls HeaderValidator.ValidateHeader and ledger.VerifyBlock.
// Expected verdicts (valid / VerifyBlock ok) come from the TLC row; the driver
// decides nothing. The sets of failing checks are compared as well and reported
// in the evidence.
//
// Histories (second argument): the cases of one history are shown, in order, to
// ONE HeaderValidator instance (a node keeps its validator), each built and
// decoded exactly like a single case; every step must get the verdict the
// specification gives it (invariant HistoryIrrelevant: that of a fresh
// validator).
package main

import (
	"bytes"
	"crypto/ed25519"
	"encoding/binary"
	"encoding/hex"
	"fmt"
	"math/big"
	"math/rand"
	"os"
	"sort"
	"strings"

	mockledger "github.com/blinklabs-io/ouroboros-mock/ledger"
	"golang.org/x/crypto/blake2b"

	"github.com/blinklabs-io/gouroboros/cbor"
	"github.com/blinklabs-io/gouroboros/consensus"
	"github.com/blinklabs-io/gouroboros/kes"
	"github.com/blinklabs-io/gouroboros/ledger"
	"github.com/blinklabs-io/gouroboros/ledger/allegra"
	"github.com/blinklabs-io/gouroboros/ledger/alonzo"
	"github.com/blinklabs-io/gouroboros/ledger/babbage"
	"github.com/blinklabs-io/gouroboros/ledger/common"
	"github.com/blinklabs-io/gouroboros/ledger/conway"
	"github.com/blinklabs-io/gouroboros/ledger/dijkstra"
	"github.com/blinklabs-io/gouroboros/ledger/mary"
	"github.com/blinklabs-io/gouroboros/ledger/shelley"
	"github.com/blinklabs-io/gouroboros/vrf"

	"verifharness/vh"
)

type histRow struct {
	Layout     string `json:"layout"`
	Steps      []row  `json:"steps"`
	CertReplay bool   `json:"certreplay"`
}

type row struct {
	Layout  string `json:"layout"`
	Off     string `json:"off"`
	Regime  string `json:"regime"`
	Mut     string `json:"mut"`
	Valid   bool   `json:"valid"`
	Fails   []int  `json:"fails"`
	VbOk    bool   `json:"vbok"`
	VbFirst int    `json:"vbfirst"`
	KesD    int    `json:"kesd"`
	Field   string `json:"field"`
}

// ---- keys ---------------------------------------------------------------------

type coldKey struct {
	priv ed25519.PrivateKey
	pub  ed25519.PublicKey
}

type kesKey struct {
	seed []byte
	pub  []byte
	at   map[uint64]*kes.SecretKey
}

// signerAt returns the key evolved to period t (a fresh evolution from the seed:
// kes.Update erases its argument)
func (k *kesKey) signerAt(t uint64) (*kesSigner, error) {
	if sk, ok := k.at[t]; ok {
		return &kesSigner{sk: sk, pub: k.pub}, nil
	}
	sk, pk, err := kes.KeyGen(kes.CardanoKesDepth, k.seed)
	if err != nil {
		return nil, err
	}
	for sk.Period < t {
		if sk, err = kes.Update(sk); err != nil {
			return nil, err
		}
	}
	k.pub = pk
	k.at[t] = sk
	return &kesSigner{sk: sk, pub: pk}, nil
}

type kesSigner struct {
	sk  *kes.SecretKey
	pub []byte
}

func (s *kesSigner) Sign(msg []byte) ([]byte, error) { return kes.Sign(s.sk, s.sk.Period, msg) }
func (s *kesSigner) PublicKey() []byte               { return s.pub }
func (s *kesSigner) Period() uint64                  { return s.sk.Period }

type world struct {
	rng        *rand.Rand
	cold       [2]coldKey
	hot        [2]*kesKey
	vrfS       [2]*consensus.SimpleVRFSigner
	nonce      []byte
	prevHash   []byte
	otherHash  []byte
	prevBlock  uint64
	totalStake uint64
	poolStake  uint64
}

func (w *world) bytes(n int) []byte {
	b := make([]byte, n)
	w.rng.Read(b)
	return b
}

func newWorld(seed int64) (*world, error) {
	w := &world{rng: rand.New(rand.NewSource(seed*7_368_787 + 40))}
	for i := range w.cold {
		priv := ed25519.NewKeyFromSeed(w.bytes(32))
		w.cold[i] = coldKey{priv: priv, pub: priv.Public().(ed25519.PublicKey)}
		w.hot[i] = &kesKey{seed: w.bytes(32), at: map[uint64]*kes.SecretKey{}}
		if _, err := w.hot[i].signerAt(0); err != nil {
			return nil, err
		}
		s, err := consensus.NewSimpleVRFSigner(w.bytes(32))
		if err != nil {
			return nil, err
		}
		w.vrfS[i] = s
	}
	w.nonce, w.prevHash, w.otherHash = w.bytes(32), w.bytes(32), w.bytes(32)
	w.prevBlock = uint64(w.rng.Intn(1 << 30))
	w.totalStake = 1_000_000 + uint64(w.rng.Intn(1<<40))
	w.poolStake = 1 + uint64(w.rng.Int63n(int64(w.totalStake)))
	return w, nil
}

// ---- network / era parameters ------------------------------------------------------

type netCfg struct {
	name     string
	spk      uint64 // slots per KES period (>= 4)
	maxEvol  uint64
	opPeriod uint64
}

var nets = []netCfg{
	{"mainnet", 129600, 62, 400},
	{"small", 10, 7, 3},
	{"tiny", 4, 2, 2},
}

type eraCfg struct {
	name   string
	layout string
	major  uint64
	segs   int // body segments after the header (0 = Dijkstra [header, body])
}

var eras = []eraCfg{
	{"shelley", "tpraos", 2, 3}, {"allegra", "tpraos", 3, 3}, {"mary", "tpraos", 4, 3}, {"alonzo", "tpraos", 5, 4},
	{"babbage", "praos", 7, 4}, {"conway", "praos", 9, 4}, {"conway10", "praos", 10, 4}, {"dijkstra", "praos", 12, 0},
}

// ---- wire format ------------------------------------------------------------------------

func head(major byte, n uint64) []byte {
	m := major << 5
	switch {
	case n < 24:
		return []byte{m | byte(n)}
	case n <= 0xff:
		return []byte{m | 24, byte(n)}
	case n <= 0xffff:
		b := []byte{m | 25, 0, 0}
		binary.BigEndian.PutUint16(b[1:], uint16(n))
		return b
	}
	b := []byte{m | 26, 0, 0, 0, 0}
	binary.BigEndian.PutUint32(b[1:], uint32(n))
	return b
}

// headerBodyCbor writes the header body the way BlockBuilder signs it (the
// function that does it there is unexported): Praos = 10 fields with nested VRF
// result / certificate / version, TPraos = 15 flat fields.
func headerBodyCbor(b *consensus.HeaderBody, layout string) ([]byte, error) {
	if layout == "tpraos" {
		return cbor.Encode([]any{b.BlockNumber, b.Slot, b.PrevHash, b.IssuerVkey, b.VrfKey,
			[]any{b.NonceVrfOutput, b.NonceVrfProof}, []any{b.VrfOutput, b.VrfProof},
			b.BlockBodySize, b.BlockBodyHash, b.OpCertHotVkey, b.OpCertSequenceNumber, b.OpCertKesPeriod,
			b.OpCertSignature, b.ProtoMajor, b.ProtoMinor})
	}
	return cbor.Encode([]any{b.BlockNumber, b.Slot, b.PrevHash, b.IssuerVkey, b.VrfKey,
		[]any{b.VrfOutput, b.VrfProof}, b.BlockBodySize, b.BlockBodyHash,
		[]any{b.OpCertHotVkey, b.OpCertSequenceNumber, b.OpCertKesPeriod, b.OpCertSignature},
		[]any{b.ProtoMajor, b.ProtoMinor}})
}

func headerCbor(body, sig []byte) []byte {
	out := append([]byte{0x82}, body...)
	out = append(out, head(2, uint64(len(sig)))...)
	return append(out, sig...)
}

// blockBody returns the segments of an empty block body (variant 1) or of the
// same body written with an indefinite-length empty transaction list (variant 2:
// different bytes, so a different hash).
func blockBody(e eraCfg, variant int) [][]byte {
	txs := []byte{0x80}
	if variant == 2 {
		txs = []byte{0x9f, 0xff}
	}
	if e.segs == 0 { // Dijkstra: block_body = [invalid_transactions / nil, [* transaction], leios / nil, peras / nil]
		return [][]byte{append(append([]byte{0x84, 0xf6}, txs...), 0xf6, 0xf6)}
	}
	segs := [][]byte{txs, {0x80}, {0xa0}}
	if e.segs == 4 {
		segs = append(segs, []byte{0x80})
	}
	return segs
}

func bodyHash(e eraCfg, segs [][]byte) []byte {
	if e.segs == 0 {
		h := blake2b.Sum256(segs[0])
		return h[:]
	}
	var cat []byte
	for _, s := range segs {
		h := blake2b.Sum256(s)
		cat = append(cat, h[:]...)
	}
	h := blake2b.Sum256(cat)
	return h[:]
}

func blockCbor(e eraCfg, hdr []byte, segs [][]byte) []byte {
	out := append(head(4, uint64(1+len(segs))), hdr...)
	for _, s := range segs {
		out = append(out, s...)
	}
	return out
}

// ---- the receiving side -------------------------------------------------------------------

// headerInput fills ValidateHeaderInput from a decoded header, as a node would.
func headerInput(h common.BlockHeader) (*consensus.ValidateHeaderInput, error) {
	in := &consensus.ValidateHeaderInput{}
	sh := func(x *shelley.ShelleyBlockHeader) {
		b := &x.Body
		in.Slot, in.BlockNumber, in.PrevHash, in.IssuerVkey, in.VrfKey = b.Slot, b.BlockNumber, b.PrevHash.Bytes(), b.IssuerVkey[:], b.VrfKey
		in.VrfProof, in.VrfOutput = b.LeaderVrf.Proof, b.LeaderVrf.Output
		in.NonceVrfProof, in.NonceVrfOutput = b.NonceVrf.Proof, b.NonceVrf.Output
		in.KesSignature, in.HeaderBodyCbor = x.Signature, b.Cbor()
		in.OpCertHotVkey, in.OpCertSequenceNumber, in.OpCertKesPeriod, in.OpCertSignature =
			b.OpCertHotVkey, b.OpCertSequenceNumber, b.OpCertKesPeriod, b.OpCertSignature
	}
	ba := func(x *babbage.BabbageBlockHeader) {
		b := &x.Body
		in.Slot, in.BlockNumber, in.PrevHash, in.IssuerVkey, in.VrfKey = b.Slot, b.BlockNumber, b.PrevHash.Bytes(), b.IssuerVkey[:], b.VrfKey
		in.VrfProof, in.VrfOutput = b.VrfResult.Proof, b.VrfResult.Output
		in.KesSignature, in.HeaderBodyCbor = x.Signature, b.Cbor()
		in.OpCertHotVkey, in.OpCertSequenceNumber, in.OpCertKesPeriod, in.OpCertSignature =
			b.OpCert.HotVkey, b.OpCert.SequenceNumber, b.OpCert.KesPeriod, b.OpCert.Signature
	}
	switch x := h.(type) {
	case *shelley.ShelleyBlockHeader:
		sh(x)
	case *allegra.AllegraBlockHeader:
		sh(&x.ShelleyBlockHeader)
	case *mary.MaryBlockHeader:
		sh(&x.ShelleyBlockHeader)
	case *alonzo.AlonzoBlockHeader:
		sh(&x.ShelleyBlockHeader)
	case *babbage.BabbageBlockHeader:
		ba(x)
	case *conway.ConwayBlockHeader:
		ba(&x.BabbageBlockHeader)
	case *dijkstra.DijkstraBlockHeader:
		ba(&x.BabbageBlockHeader)
	default:
		return nil, fmt.Errorf("unexpected header type %T", h)
	}
	return in, nil
}

// checkOf maps the error texts of ValidateHeader to the numbers of its checks.
func checksOf(errs []error) []int {
	set := map[int]bool{}
	future := 0
	for _, e := range errs {
		m := e.Error()
		switch {
		case strings.Contains(m, "slot must be greater"):
			set[1] = true
		case strings.Contains(m, "block number must be"):
			set[2] = true
		case strings.Contains(m, "previous hash does not match"), strings.Contains(m, "previous header hash is required"):
			set[3] = true
		case strings.Contains(m, "does not match registered key hash"), strings.Contains(m, "registration check"):
			set[10] = true
		case strings.Contains(m, "nonce VRF"):
			set[6] = true
		case strings.Contains(m, "leadership threshold"), strings.Contains(m, "total stake"):
			set[5] = true
		case strings.Contains(m, "VRF"):
			set[4] = true
		case strings.Contains(m, "KES period is in the future"):
			future++
			if future == 1 {
				set[7] = true
			} else {
				set[8] = true
			}
		case strings.Contains(m, "has expired"):
			set[7] = true
		case strings.Contains(m, "KES"):
			set[8] = true
		case strings.Contains(m, "OpCert"), strings.Contains(m, "ssuer"):
			set[9] = true
		default:
			set[99] = true
		}
	}
	var out []int
	for k := range set {
		out = append(out, k)
	}
	sort.Ints(out)
	return out
}

func vbCheckOf(err error) int {
	m := err.Error()
	switch {
	case strings.Contains(m, "VRF key mismatch"):
		return 5
	case strings.Contains(m, "VRF"):
		return 1
	case strings.Contains(m, "KES"):
		return 2
	case strings.Contains(m, "body hash"):
		return 3
	case strings.Contains(m, "pool is not registered"), strings.Contains(m, "pool state"):
		return 4
	}
	return 99
}

func same(a, b []int) bool {
	if len(a) != len(b) {
		return false
	}
	for i := range a {
		if a[i] != b[i] {
			return false
		}
	}
	return true
}

func flip(rng *rand.Rand, b []byte) []byte {
	out := bytes.Clone(b)
	if len(out) > 0 {
		out[rng.Intn(len(out))] ^= 1 << uint(rng.Intn(8))
	}
	return out
}

// ---- one case --------------------------------------------------------------------------------

type result struct {
	Stage     string   `json:"stage"` // build / decode / validated
	BuildErr  string   `json:"build_error,omitempty"`
	DecodeErr string   `json:"decode_error,omitempty"`
	Valid     bool     `json:"validate_header_valid"`
	Checks    []int    `json:"validate_header_failing_checks"`
	Errors    []string `json:"validate_header_errors,omitempty"`
	VbOk      bool     `json:"verify_block_ok"`
	VbCheck   int      `json:"verify_block_failing_check"`
	VbErr     string   `json:"verify_block_error,omitempty"`
}

func offPeriods(off string, n netCfg) (cur uint64, honestT uint64, err error) {
	switch off {
	case "m1":
		return n.opPeriod - 1, 0, nil
	case "0":
		return n.opPeriod, 0, nil
	case "maxm1":
		return n.opPeriod + n.maxEvol - 1, n.maxEvol - 1, nil
	case "max":
		return n.opPeriod + n.maxEvol, n.maxEvol, nil
	}
	return 0, 0, fmt.Errorf("unknown offset %q", off)
}

func (w *world) opCert(cold coldKey, hot []byte, seq, period uint32) *consensus.OperationalCert {
	return &consensus.OperationalCert{HotVkey: hot, SequenceNumber: seq, KesPeriod: period,
		Signature: ed25519.Sign(cold.priv, common.OpCertSignableBytes(hot, uint64(seq), uint64(period)))}
}

// prepared is a case as the receiving node holds it: the decoded block and the
// filled ValidateHeaderInput (nil when the builder or the decoder refused).
type prepared struct {
	res  *result
	dump map[string]any
	blk  ledger.Block
	vin  *consensus.ValidateHeaderInput
}

func newValidator(e eraCfg, n netCfg) *consensus.HeaderValidator {
	mode := consensus.ConsensusModeCPraos
	if e.layout == "tpraos" {
		mode = consensus.ConsensusModeTPraos
	}
	return consensus.NewHeaderValidatorWithMode(consensus.NetworkConfig{
		ActiveSlotCoeff: common.GenesisRat{Rat: big.NewRat(1, 1)}, SlotsPerKESPeriod: n.spk, MaxKESEvolutions: n.maxEvol}, mode)
}

// the node's ledger view: the pool of cold key 0 is registered with VRF key 0
func (w *world) ledgerState() common.LedgerState {
	regCold, regVrf := blake2b224(w.cold[0].pub), blake2b.Sum256(w.vrfS[0].PublicKey())
	return mockledger.NewLedgerStateBuilder().WithPoolRegistrations([]common.PoolRegistrationCertificate{{
		CertType: uint(common.CertificateTypePoolRegistration), Operator: common.NewBlake2b224(regCold),
		VrfKeyHash: common.NewBlake2b256(regVrf[:])}}).Build()
}

// runCase validates one case on a fresh validator.
func (w *world) runCase(r *row, e eraCfg, n netCfg) (*result, map[string]any, error) {
	p, err := w.prepare(r, e, n)
	if err != nil {
		return nil, nil, err
	}
	if p.vin != nil {
		w.validate(newValidator(e, n), w.ledgerState(), p, n)
	}
	return p.res, p.dump, nil
}

// validate shows a prepared case to a validator instance (and to VerifyBlock with the given ledger state).
func (w *world) validate(validator *consensus.HeaderValidator, ls common.LedgerState, p *prepared, n netCfg) {
	res := p.res
	vr := validator.ValidateHeader(p.vin)
	res.Valid, res.Checks = vr.Valid, checksOf(vr.Errors)
	res.Errors = nil
	for _, e := range vr.Errors {
		res.Errors = append(res.Errors, e.Error())
	}
	ok, _, _, _, verr := ledger.VerifyBlock(p.blk, hex.EncodeToString(w.nonce), n.spk,
		common.VerifyConfig{SkipTransactionValidation: true, LedgerState: ls})
	res.VbOk = ok && verr == nil
	res.VbErr, res.VbCheck = "", 0
	if verr != nil {
		res.VbErr, res.VbCheck = verr.Error(), vbCheckOf(verr)
	} else if !ok {
		res.VbCheck = 99
	}
}

func (w *world) prepare(r *row, e eraCfg, n netCfg) (*prepared, error) {
	res := &result{Stage: "build"}
	cur, honestT, err := offPeriods(r.Off, n)
	if err != nil {
		return nil, err
	}
	slot := cur*n.spk + 2
	prevSlot := slot - 2
	mode := consensus.ConsensusModeCPraos
	if e.layout == "tpraos" {
		mode = consensus.ConsensusModeTPraos
	}
	const seq = 7
	segs1, segs2 := blockBody(e, 1), blockBody(e, 2)
	size := uint64(0)
	for _, s := range segs1 {
		size += uint64(len(s))
	}
	in := consensus.BuildHeaderInput{Slot: slot, BlockNumber: w.prevBlock + 1, PrevHash: w.prevHash, EpochNonce: w.nonce,
		PoolStake: w.poolStake, TotalStake: w.totalStake, BlockBodyHash: bodyHash(e, segs1), BlockBodySize: size,
		ProtoMajor: e.major, ProtoMinor: 0}
	cold, vrfSigner := w.cold[0], w.vrfS[0]
	hotPub := w.hot[0].pub
	cert := w.opCert(cold, hotPub, seq, uint32(n.opPeriod))
	signerT := honestT
	segs := segs1
	mut := r.Mut
	if r.Regime == "insider" {
		signerT = honestT + uint64(r.KesD)
		switch mut {
		case "blockNo:+1":
			in.BlockNumber++
		case "slot:=prev":
			in.Slot = prevSlot
		case "prevHash:other":
			in.PrevHash = w.otherHash
		case "bodyHash:other":
			in.BlockBodyHash = bodyHash(e, segs2)
		case "opSeq:+1":
			cert.SequenceNumber++
		case "opPeriod:-1":
			cert.KesPeriod--
		case "opSig:othercold":
			cert = w.opCert(w.cold[1], hotPub, seq, uint32(n.opPeriod))
		case "pool:other":
			cold = w.cold[1]
			cert = w.opCert(cold, hotPub, seq, uint32(n.opPeriod))
		case "vrfKey:unregistered":
			vrfSigner = w.vrfS[1]
		case "vrfProof:flip", "nonceProof:flip", "opSig:flip":
		default:
			return nil, fmt.Errorf("unknown insider mutation %q", mut)
		}
	}
	signer, err := w.hot[0].signerAt(signerT)
	if err != nil {
		return nil, fmt.Errorf("KES signer at period %d: %w", signerT, err)
	}
	poolID := blake2b224(cold.pub)
	builder := consensus.NewBlockBuilderWithMode(vrfSigner, signer, cert, poolID, cold.pub, big.NewRat(1, 1), mode)
	hdr, _, err := builder.BuildHeader(in)
	if err != nil {
		res.BuildErr = err.Error()
		return &prepared{res: res}, nil
	}
	b := hdr.Body // mutations work on a copy of the slices they change
	sig := hdr.Signature
	resign := false
	if r.Regime == "insider" {
		switch mut {
		case "vrfProof:flip":
			b.VrfProof, resign = flip(w.rng, b.VrfProof), true
		case "nonceProof:flip":
			b.NonceVrfProof, resign = flip(w.rng, b.NonceVrfProof), true
		case "opSig:flip":
			b.OpCertSignature, resign = flip(w.rng, b.OpCertSignature), true
		}
	}
	if r.Regime == "tamper" {
		switch mut {
		case "blockNo:+1":
			b.BlockNumber++
		case "slot:=prev":
			b.Slot = prevSlot
		case "slot:-1":
			b.Slot--
		case "slot:+1":
			b.Slot++
		case "slot:+period":
			b.Slot += n.spk
		case "prevHash:other":
			b.PrevHash = w.otherHash
		case "issuer:otherkey":
			b.IssuerVkey = w.cold[1].pub
		case "issuer:flip":
			b.IssuerVkey = flip(w.rng, b.IssuerVkey)
		case "vrfKey:otherkey":
			b.VrfKey = w.vrfS[1].PublicKey()
		case "vrfKey:flip":
			b.VrfKey = flip(w.rng, b.VrfKey)
		case "vrfProof:flip":
			b.VrfProof = flip(w.rng, b.VrfProof)
		case "vrfProof:otherslot":
			// a genuine certificate of the same key for the slot before
			var msg []byte
			if e.layout == "tpraos" {
				msg, err = vrf.MkSeedTPraos(int64(slot-1), w.nonce, vrf.SeedL())
			} else {
				msg, err = vrf.MkInputVrf(int64(slot-1), w.nonce)
			}
			if err != nil {
				return nil, err
			}
			p, _, err := vrfSigner.Prove(msg)
			if err != nil {
				return nil, err
			}
			b.VrfProof = p
		case "vrfOut:flip":
			b.VrfOutput = flip(w.rng, b.VrfOutput)
		case "nonceProof:flip":
			b.NonceVrfProof = flip(w.rng, b.NonceVrfProof)
		case "nonceOut:flip":
			b.NonceVrfOutput = flip(w.rng, b.NonceVrfOutput)
		case "bodySize:+1":
			b.BlockBodySize++
		case "bodyHash:other":
			b.BlockBodyHash = bodyHash(e, segs2)
		case "opHot:otherkey":
			b.OpCertHotVkey = w.hot[1].pub
		case "opHot:flip":
			b.OpCertHotVkey = flip(w.rng, b.OpCertHotVkey)
		case "opSeq:+1":
			b.OpCertSequenceNumber++
		case "opPeriod:-1":
			b.OpCertKesPeriod--
		case "opPeriod:+1":
			b.OpCertKesPeriod++
		case "opSig:flip":
			b.OpCertSignature = flip(w.rng, b.OpCertSignature)
		case "opSig:othercold":
			b.OpCertSignature = w.opCert(w.cold[1], b.OpCertHotVkey, b.OpCertSequenceNumber, b.OpCertKesPeriod).Signature
		case "protoMajor:+1":
			b.ProtoMajor++
		case "protoMinor:+1":
			b.ProtoMinor++
		case "kesSig:flip":
			sig = flip(w.rng, sig)
		case "kesSig:otherperiod":
			s2, err := w.hot[0].signerAt(honestT + 1)
			if err != nil {
				return nil, err
			}
			raw, err := headerBodyCbor(&b, e.layout)
			if err != nil {
				return nil, err
			}
			if sig, err = s2.Sign(raw); err != nil {
				return nil, err
			}
		case "kesSig:otherbody":
			b2 := b
			b2.BlockNumber--
			raw, err := headerBodyCbor(&b2, e.layout)
			if err != nil {
				return nil, err
			}
			if sig, err = signer.Sign(raw); err != nil {
				return nil, err
			}
		case "body:other":
			segs = segs2
		default:
			return nil, fmt.Errorf("unknown tamper mutation %q", mut)
		}
	}
	rawBody, err := headerBodyCbor(&b, e.layout)
	if err != nil {
		return nil, err
	}
	if resign {
		if sig, err = signer.Sign(rawBody); err != nil {
			return nil, err
		}
	}
	hdrBytes := headerCbor(rawBody, sig)
	blkBytes := blockCbor(e, hdrBytes, segs)
	dump := map[string]any{"era": e.name, "net": n, "slot": slot, "prev_slot": prevSlot, "prev_block_number": w.prevBlock,
		"prev_hash": hex.EncodeToString(w.prevHash), "epoch_nonce": hex.EncodeToString(w.nonce),
		"block_cbor": hex.EncodeToString(blkBytes), "registered_cold_vkey": hex.EncodeToString(w.cold[0].pub),
		"registered_vrf_vkey": hex.EncodeToString(w.vrfS[0].PublicKey()), "pool_stake": w.poolStake, "total_stake": w.totalStake}

	// ---- the receiving node ------------------------------------------------------------
	res.Stage = "decode"
	bt, err := ledger.DetermineBlockType(hdrBytes)
	if err != nil {
		res.DecodeErr = err.Error()
		return &prepared{res: res, dump: dump}, nil
	}
	blk, err := ledger.NewBlockFromCbor(bt, blkBytes, common.VerifyConfig{SkipBodyHashValidation: true})
	if err != nil {
		res.DecodeErr = err.Error()
		return &prepared{res: res, dump: dump}, nil
	}
	res.Stage = "validated"
	vin, err := headerInput(blk.Header())
	if err != nil {
		return nil, err
	}
	vin.PrevSlot, vin.PrevBlockNumber, vin.PrevHeaderHash, vin.EpochNonce = prevSlot, w.prevBlock, w.prevHash, w.nonce
	vin.TotalStake = w.totalStake
	regCold, regVrf := blake2b224(w.cold[0].pub), blake2b.Sum256(w.vrfS[0].PublicKey())
	if bytes.Equal(blake2b224(vin.IssuerVkey), regCold) { // the node's view of the issuing pool
		vin.PoolStake, vin.RegisteredVrfKeyHash = w.poolStake, regVrf[:]
	}
	return &prepared{res: res, dump: dump, blk: blk, vin: vin}, nil
}

func blake2b224(b []byte) []byte {
	h, _ := blake2b.New(28, nil)
	h.Write(b)
	return h.Sum(nil)
}

func main() {
	rep := vh.NewReporter()
	if len(os.Args) < 2 {
		rep.Dead("usage: c40 cases.ndjson [histories.ndjson]")
	}
	rows, err := vh.ReadNDJSON[row](os.Args[1])
	if err != nil || len(rows) == 0 {
		rep.Dead("cases: %v (%d rows)", err, len(rows))
	}
	var hists []histRow
	if len(os.Args) > 2 {
		if hists, err = vh.ReadNDJSON[histRow](os.Args[2]); err != nil || len(hists) == 0 {
			rep.Dead("histories: %v (%d rows)", err, len(hists))
		}
	}
	w, err := newWorld(vh.Seed())
	if err != nil {
		rep.Dead("keys: %v", err)
	}
	byLayout := map[string][]eraCfg{}
	for _, e := range eras {
		byLayout[e.layout] = append(byLayout[e.layout], e)
	}
	thorough := vh.Tier() == "thorough"
	stats := map[string]int{}
	setMismatch := map[string]int{}
	var setExample []string
	decodeRejects := map[string]int{}
	sampled := map[string]bool{}
	honestValid := 0
	// judge compares what the code said about one case (on a fresh validator: pfx "", as a step of a
	// history: pfx "history:") with the specification's row.
	judge := func(key string, r *row, res *result, replay map[string]any) {
		pfx := ""
		if strings.HasPrefix(key, "hist=") {
			pfx = "history:"
		}
		if res.Stage == "build" {
			// the builder refused; a produced header is demanded only where the spec says it is valid
			stats[pfx+"builder_refused"]++
			if r.Regime == "none" || r.Valid || r.VbOk {
				rep.Disagree(key+":at=build", "BlockBuilder.BuildHeader failed: "+res.BuildErr, replay)
			}
			return
		}
		if res.Stage == "decode" {
			decodeRejects[pfx+r.Mut]++
			if r.Valid || r.VbOk {
				rep.Disagree(key+":at=decode", "the produced header/block does not decode: "+res.DecodeErr, replay)
			}
			return
		}
		if pfx == "" && r.Regime == "none" && r.Valid && res.Valid && res.VbOk {
			honestValid++
		}
		if res.Valid != r.Valid {
			rep.Disagree(key+":at=header", fmt.Sprintf("ValidateHeader: valid=%v (failing checks %v %v); the specification says valid=%v (failing checks %v)",
				res.Valid, res.Checks, res.Errors, r.Valid, r.Fails), replay)
		} else if !same(res.Checks, r.Fails) {
			setMismatch[pfx+r.Regime+":"+r.Mut]++
			if len(setExample) < 6 {
				setExample = append(setExample, fmt.Sprintf("%s: code %v spec %v", key, res.Checks, r.Fails))
			}
		} else {
			stats[pfx+"failing_check_sets_equal"]++
		}
		if res.VbOk != r.VbOk {
			rep.Disagree(key+":at=block", fmt.Sprintf("VerifyBlock: ok=%v (check %d: %s); the specification says ok=%v (first failing check %d)",
				res.VbOk, res.VbCheck, res.VbErr, r.VbOk, r.VbFirst), replay)
		} else if res.VbCheck != r.VbFirst {
			setMismatch[pfx+"verifyblock:"+r.Regime+":"+r.Mut]++
			if len(setExample) < 6 {
				setExample = append(setExample, fmt.Sprintf("%s: VerifyBlock first failing check %d (%s), spec %d", key, res.VbCheck, res.VbErr, r.VbFirst))
			}
		}
	}
	for idx := range rows {
		r := &rows[idx]
		es := byLayout[r.Layout]
		if len(es) == 0 {
			rep.Dead("unknown layout %q", r.Layout)
		}
		type combo struct {
			e eraCfg
			n netCfg
		}
		var combos []combo
		// every case on every era of its layout; quick rotates the network
		// parameters, thorough takes all of them
		for ei, e := range es {
			if thorough {
				for _, n := range nets {
					combos = append(combos, combo{e, n})
				}
			} else {
				combos = append(combos, combo{e, nets[(idx+ei+int(vh.Seed()))%len(nets)]})
			}
		}
		for _, c := range combos {
			key := fmt.Sprintf("layout=%s:off=%s:regime=%s:mut=%s:era=%s:net=%s", r.Layout, r.Off, r.Regime, r.Mut, c.e.name, c.n.name)
			replay := map[string]any{"key": key, "case": r}
			rep.Guard(key, replay, func() {
				res, dump, err := w.runCase(r, c.e, c.n)
				if err != nil {
					rep.Dead("%s: %v", key, err)
				}
				rep.Case(key, true)
				replay["inputs"], replay["code"] = dump, res
				stats[r.Regime+":spec_valid="+fmt.Sprint(r.Valid)+":spec_vbok="+fmt.Sprint(r.VbOk)]++
				judge(key, r, res, replay)
				if res.Stage != "validated" {
					return
				}
				if sk := r.Regime + "/" + r.Field; !sampled[sk] && len(sampled) < 5 && (r.Regime != "none" || r.Off == "max") {
					sampled[sk] = true
					rep.Sample(map[string]any{"key": key, "spec": map[string]any{"valid": r.Valid, "fails": r.Fails, "vbok": r.VbOk},
						"code": map[string]any{"valid": res.Valid, "fails": res.Checks, "vbok": res.VbOk, "vb_error": res.VbErr}})
				}
			})
		}
	}
	// ---- histories: several cases shown to ONE validator instance, in order -------------------
	// (VerifyBlock gets one ledger state per history as well). Every step must get the verdict
	// of its row, which TLC has shown to be the verdict of a fresh validator.
	histSteps, histCertReplay := 0, 0
	histSampled := 0
	for idx := range hists {
		h := &hists[idx]
		es := byLayout[h.Layout]
		if len(es) == 0 || len(h.Steps) < 2 {
			rep.Dead("history %d: layout %q, %d steps", idx, h.Layout, len(h.Steps))
		}
		var names []string
		for i := range h.Steps {
			st := &h.Steps[i]
			if st.Layout != h.Layout {
				rep.Dead("history %d: step %d has layout %q", idx, i+1, st.Layout)
			}
			names = append(names, st.Regime+"/"+st.Mut+"@"+st.Off)
		}
		type combo struct {
			e eraCfg
			n netCfg
		}
		var combos []combo
		// quick: one era of the layout and one set of network parameters per history (rotated);
		// thorough: every era, network parameters rotated
		if thorough {
			for ei, e := range es {
				combos = append(combos, combo{e, nets[(idx+ei+int(vh.Seed()))%len(nets)]})
			}
		} else {
			k := idx + int(vh.Seed())
			combos = append(combos, combo{es[k%len(es)], nets[(k/len(es))%len(nets)]})
		}
		for _, c := range combos {
			key := fmt.Sprintf("hist=%s:layout=%s:era=%s:net=%s", strings.Join(names, ">"), h.Layout, c.e.name, c.n.name)
			replay := map[string]any{"key": key, "history": h}
			rep.Guard(key, replay, func() {
				validator, ls := newValidator(c.e, c.n), w.ledgerState()
				rep.Case(key, true)
				stats[fmt.Sprintf("history:steps=%d:certreplay=%v", len(h.Steps), h.CertReplay)]++
				if h.CertReplay {
					histCertReplay++
				}
				var codes []*result
				var dumps []map[string]any
				replay["inputs"], replay["code"] = &dumps, &codes
				for i := range h.Steps {
					st := &h.Steps[i]
					p, err := w.prepare(st, c.e, c.n)
					if err != nil {
						rep.Dead("%s: step %d: %v", key, i+1, err)
					}
					if p.vin != nil {
						w.validate(validator, ls, p, c.n)
					}
					histSteps++
					codes, dumps = append(codes, p.res), append(dumps, p.dump)
					judge(fmt.Sprintf("%s:step=%d", key, i+1), st, p.res, replay)
				}
				if h.CertReplay && histSampled < 2 && len(codes) == 2 && codes[1].Stage == "validated" {
					histSampled++
					rep.Sample(map[string]any{"key": key, "spec_valid_per_step": []bool{h.Steps[0].Valid, h.Steps[1].Valid},
						"code_valid_per_step": []bool{codes[0].Valid, codes[1].Valid}, "code_failing_checks_last_step": codes[1].Checks})
				}
			})
		}
	}
	rep.Extra["c40_histories_on_one_validator"] = map[string]any{"histories": len(hists), "steps_validated": histSteps,
		"histories_replaying_a_certificate_tuple_under_another_cold_signature": histCertReplay}
	// honestValid == 0 cannot pass silently: every honest in-window row that is
	// not accepted by both validators has been reported as a disagreement above
	// (the property demands that produced headers validate).
	rep.Extra["c40_evaluations_by_regime_and_spec_verdict"] = stats
	rep.Extra["c40_honest_headers_accepted_by_both_validators"] = honestValid
	rep.Extra["c40_failing_check_set_differs_from_spec_same_verdict"] = setMismatch
	rep.Extra["c40_failing_check_set_examples"] = setExample
	rep.Extra["c40_mutated_blocks_rejected_by_the_decoder"] = decodeRejects
	rep.Extra["c40_observation_points"] = "(histories: the same HeaderValidator instance and ledger state for all steps) consensus.BlockBuilder.BuildHeader -> era wire format -> ledger.DetermineBlockType / NewBlockFromCbor -> " +
		"consensus.HeaderValidator.ValidateHeader (Valid, Errors) and ledger.VerifyBlock (pool registration on, transactions skipped: the block is empty)"
	rep.Extra["c40_not_judged"] = []string{
		"which error VerifyBlock returns and the exact set of ValidateHeader errors (compared with the spec, differences listed above, not a verdict)",
		"VerifyBlock at a KES period beyond the window: the function is not given maxKESEvolutions and is documented so",
		"leadership thresholds below 1 (active-slot coefficient is 1 here; the threshold arithmetic is C37)",
	}
	rep.Finish()
}
