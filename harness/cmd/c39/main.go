// c39: replays the behaviours TLC generated from spec/consensus/Kes.tla (API
// call histories of a KES key: Update, Sign, use of a spent handle, relabelled
// key material, Verify of the last signature under a key / period / message /
// single corrupted component) on the real kes package with real Ed25519 keys.
// After every call the result and the observable abstract state (period, public
// key, "the live handle signs for its period") are compared with the spec's.
// The expected values all come from the rows; nothing is decided here.
package main

import (
	"bufio"
	"bytes"
	"encoding/json"
	"fmt"
	"hash/fnv"
	"math"
	"math/rand"
	"os"
	"runtime"
	"sync"

	"github.com/blinklabs-io/gouroboros/kes"
	"github.com/blinklabs-io/gouroboros/ledger"

	"verifharness/vh"
)

type call struct {
	Op string `json:"op"`
	P  int64  `json:"p"`
	M  string `json:"m"`
	K  string `json:"k"`
	C  []any  `json:"c"`
}

type exp struct {
	Ok  bool   `json:"ok"`
	Alt bool   `json:"alt"`
	T   int64  `json:"t"`
	Pk  string `json:"pk"`
	Mut bool   `json:"mut"`
}

type entry struct {
	C call `json:"c"`
	E exp  `json:"e"`
}

type row struct {
	Kind  string  `json:"kind"`
	D     int     `json:"d"`
	T     int64   `json:"t"`
	Steps []entry `json:"steps"`
	Fan   []entry `json:"fan"`
	Rseed *int64  `json:"rseed,omitempty"`
}

func (c call) corr() (string, int, int) {
	if len(c.C) != 3 {
		return "none", 0, 0
	}
	name, _ := c.C[0].(string)
	l, _ := c.C[1].(float64)
	s, _ := c.C[2].(float64)
	return name, int(l), int(s)
}

func (c call) String() string {
	switch c.Op {
	case "update", "staleupdate":
		return c.Op
	case "sign", "stale", "relabel":
		return fmt.Sprintf("%s(p=%d,m=%s)", c.Op, c.P, c.M)
	case "verify":
		name, l, s := c.corr()
		cs := name
		if name == "pair" {
			cs = fmt.Sprintf("pair.%d.%s", l, []string{"?", "L", "R"}[s])
		}
		return fmt.Sprintf("verify(k=%s,p=%d,m=%s,c=%s)", c.K, c.P, c.M, cs)
	}
	return c.Op
}

func readRows(path string) ([]row, error) {
	f, err := os.Open(path)
	if err != nil {
		return nil, err
	}
	defer f.Close()
	var out []row
	sc := bufio.NewScanner(f)
	sc.Buffer(make([]byte, 1<<20), 1<<28)
	for sc.Scan() {
		b := bytes.TrimSpace(sc.Bytes())
		if len(b) == 0 {
			continue
		}
		if b[0] == '"' { // CSVWrite prints the JSON text as a TLA+ string
			var s string
			if err := json.Unmarshal(b, &s); err != nil {
				return nil, err
			}
			b = []byte(s)
		}
		var r row
		if err := json.Unmarshal(b, &r); err != nil {
			return nil, err
		}
		out = append(out, r)
	}
	return out, sc.Err()
}

// world is the concrete interpretation of one behaviour
type world struct {
	rep     *vh.Reporter
	rng     *rand.Rand
	d       int
	rseed   int64
	cur     *kes.SecretKey
	stale   *kes.SecretKey
	pk      map[string][]byte
	msg     map[string][]byte
	probe   []byte
	lastSig []byte
	r       *row
}

func clone(b []byte) []byte { return append([]byte(nil), b...) }

func period(p int64) uint64 {
	if p < 0 { // order-preserving image of "below zero" in uint64 is not available: use the far end
		return math.MaxUint64
	}
	return uint64(p)
}

func newWorld(rep *vh.Reporter, r *row, rseed int64) *world {
	w := &world{rep: rep, rng: rand.New(rand.NewSource(rseed)), d: r.D, rseed: rseed, r: r,
		pk: map[string][]byte{}, msg: map[string][]byte{}}
	seedA := make([]byte, 32)
	seedB := make([]byte, 32)
	w.rng.Read(seedA)
	w.rng.Read(seedB)
	sk, pkA, err := kes.KeyGen(uint64(r.D), seedA)
	if err != nil {
		rep.Dead("KeyGen depth %d: %v", r.D, err)
	}
	_, pkB, err := kes.KeyGen(uint64(r.D), seedB)
	if err != nil {
		rep.Dead("KeyGen depth %d: %v", r.D, err)
	}
	if bytes.Equal(pkA, pkB) {
		rep.Dead("two seeds gave the same public key")
	}
	w.cur = sk
	w.pk["A"], w.pk["B"] = clone(pkA), clone(pkB)
	// messages: m1 arbitrary (sometimes empty), m2 a near miss of m1 or arbitrary
	m1 := make([]byte, []int{0, 1, 32, 64, 100, w.rng.Intn(300)}[w.rng.Intn(6)])
	w.rng.Read(m1)
	var m2 []byte
	switch w.rng.Intn(4) {
	case 0:
		m2 = append(clone(m1), 0) // extension
	case 1:
		if len(m1) > 0 { // one bit flipped
			m2 = clone(m1)
			m2[w.rng.Intn(len(m2))] ^= 1 << uint(w.rng.Intn(8))
			break
		}
		fallthrough
	default:
		m2 = make([]byte, 1+w.rng.Intn(120))
		w.rng.Read(m2)
		if bytes.Equal(m1, m2) {
			m2[0] ^= 1
		}
	}
	w.msg["m1"], w.msg["m2"] = m1, m2
	w.probe = []byte("verif probe")
	return w
}

func (w *world) verifySumX(pk []byte, p uint64, m, sig []byte) (bool, error) {
	ks, err := kes.NewSumKesFromBytes(uint64(w.d), sig)
	if err != nil {
		return false, err
	}
	return ks.Verify(p, pk, m), nil
}

func (w *world) replayObj(key string) map[string]any {
	return map[string]any{"row": w.r, "rseed": w.rseed, "at": key}
}

// observe compares the observable abstract state with the spec's after a call
func (w *world) observe(key string, e exp, probe bool) {
	if int64(w.cur.Period) != e.T {
		w.rep.Disagree(key+":period", fmt.Sprintf("live key is at period %d, spec %d", w.cur.Period, e.T), w.replayObj(key))
	}
	if e.Pk != "A" || !bytes.Equal(kes.PublicKey(w.cur), w.pk["A"]) {
		w.rep.Disagree(key+":pk", "PublicKey(live key) differs from the key-generation public key", w.replayObj(key))
	}
	fresh := &kes.SecretKey{Depth: w.cur.Depth, Period: w.cur.Period, Data: w.cur.Data}
	if !bytes.Equal(kes.PublicKey(fresh), w.pk["A"]) {
		w.rep.Disagree(key+":pk-from-data", "public key recomputed from the key material differs", w.replayObj(key))
	}
	if probe {
		sig, err := kes.Sign(w.cur, w.cur.Period, w.probe)
		ok := err == nil
		if ok {
			ok, _ = w.verifySumX(w.pk["A"], w.cur.Period, w.probe, sig)
		}
		if !ok {
			w.rep.Disagree(key+":probe", fmt.Sprintf("live key cannot produce a verifying signature for its period %d (%v)", w.cur.Period, err), w.replayObj(key))
		}
	}
}

// do executes one call and compares its result; returns false to stop the row
func (w *world) do(tBefore int64, en entry) {
	c, e := en.C, en.E
	key := fmt.Sprintf("d=%d:t=%d:%s", w.d, tBefore, c.String())
	w.rep.Case(key, true)
	w.rep.Guard(key, w.replayObj(key), func() {
		probe := true
		switch c.Op {
		case "update":
			prev := w.cur
			nk, err := kes.Update(w.cur)
			ok := err == nil && nk != nil
			if ok {
				w.stale, w.cur, w.lastSig = prev, nk, nil
			}
			if ok != e.Ok {
				w.rep.Disagree(key+":result", fmt.Sprintf("Update ok=%v (%v), spec %v", ok, err, e.Ok), w.replayObj(key))
			}
		case "sign":
			sig, err := kes.Sign(w.cur, period(c.P), w.msg[c.M])
			ok := err == nil
			if ok {
				w.lastSig = sig
				if len(sig) != 64+64*w.d {
					w.rep.Disagree(key+":size", fmt.Sprintf("signature has %d bytes", len(sig)), w.replayObj(key))
				}
			}
			if ok != e.Ok {
				w.rep.Disagree(key+":result", fmt.Sprintf("Sign ok=%v (%v), spec %v", ok, err, e.Ok), w.replayObj(key))
			}
		case "stale":
			if w.stale == nil {
				w.rep.Dead("row uses a spent handle before any Update")
			}
			_, err := kes.Sign(w.stale, period(c.P), w.msg[c.M])
			if (err == nil) != e.Ok {
				w.rep.Disagree(key+":result", fmt.Sprintf("Sign with the pre-Update handle ok=%v, spec %v", err == nil, e.Ok), w.replayObj(key))
			}
		case "staleupdate":
			if w.stale == nil {
				w.rep.Dead("row uses a spent handle before any Update")
			}
			nk, err := kes.Update(w.stale)
			ok := err == nil && nk != nil
			if ok != e.Ok {
				w.rep.Disagree(key+":result", fmt.Sprintf("Update of the pre-Update handle ok=%v, spec %v", ok, e.Ok), w.replayObj(key))
			}
		case "relabel":
			forged := &kes.SecretKey{Depth: uint64(w.d), Period: period(c.P), Data: clone(w.cur.Data)}
			sig, err := kes.Sign(forged, period(c.P), w.msg[c.M])
			ok, alt := false, e.Alt
			if err == nil {
				ok, _ = w.verifySumX(w.pk["A"], period(c.P), w.msg[c.M], sig)
				alt, _ = w.verifySumX(w.pk["A"], w.cur.Period, w.msg[c.M], sig)
			}
			if ok != e.Ok {
				w.rep.Disagree(key+":result", fmt.Sprintf("current key material relabelled as period %d signs validly for it: %v, spec %v", c.P, ok, e.Ok), w.replayObj(key))
			}
			if alt != e.Alt {
				w.rep.Disagree(key+":alt", fmt.Sprintf("relabelled signature valid for the current period: %v, spec %v", alt, e.Alt), w.replayObj(key))
			}
		case "verify":
			probe = false
			if w.lastSig == nil {
				w.rep.Dead("row verifies before any signature was made")
			}
			sig := clone(w.lastSig)
			name, l, s := c.corr()
			switch name {
			case "leaf":
				sig[w.rng.Intn(64)] ^= 1 << uint(w.rng.Intn(8))
			case "pair":
				off := 64 + (l-1)*64 + (s-1)*32
				sig[off+w.rng.Intn(32)] ^= 1 << uint(w.rng.Intn(8))
			}
			pk, m := w.pk[c.K], w.msg[c.M]
			got, err := w.verifySumX(pk, period(c.P), m, sig)
			if err != nil {
				w.rep.Disagree(key+":api=sumx:parse", fmt.Sprintf("NewSumKesFromBytes: %v", err), w.replayObj(key))
			} else if got != e.Ok {
				w.rep.Disagree(key+":api=sumx", fmt.Sprintf("SumXKesSig.Verify = %v, spec %v", got, e.Ok), w.replayObj(key))
			}
			if w.d == kes.CardanoKesDepth {
				if got := kes.VerifySignedKES(pk, period(c.P), m, sig); got != e.Ok {
					w.rep.Disagree(key+":api=signedkes", fmt.Sprintf("VerifySignedKES = %v, spec %v", got, e.Ok), w.replayObj(key))
				}
				// ledger entry point: the evolution is (slot / slotsPerKesPeriod) - certificate start period
				spkp := []uint64{1, 129600, uint64(1 + w.rng.Intn(1000))}[w.rng.Intn(3)]
				start := uint64(1 + w.rng.Intn(1000))
				current := uint64(int64(start) + c.P)
				slot := current*spkp + uint64(w.rng.Int63n(int64(spkp)))
				got, err := ledger.VerifyKesComponents(m, sig, pk, start, slot, spkp)
				if err != nil || got != e.Ok {
					w.rep.Disagree(key+":api=ledger", fmt.Sprintf("VerifyKesComponents = %v (%v), spec %v", got, err, e.Ok), w.replayObj(key))
				}
			}
		default:
			w.rep.Dead("unknown call %q", c.Op)
		}
		w.observe(key, e, probe)
	})
}

func rowSeed(seed int64, i int) int64 {
	h := fnv.New64a()
	fmt.Fprintf(h, "c39/%d/%d", seed, i)
	return int64(h.Sum64() >> 1)
}

func runRow(rep *vh.Reporter, r *row, rseed int64) {
	w := newWorld(rep, r, rseed)
	t := int64(0)
	for _, en := range r.Steps {
		w.do(t, en)
		t = en.E.T
	}
	if r.Kind == "fan" {
		for _, en := range r.Fan {
			if en.E.Mut {
				rep.Dead("fan entry changes the state")
			}
			w.do(t, en)
		}
	}
}

func main() {
	rep := vh.NewReporter()
	if len(os.Args) < 2 {
		rep.Dead("usage: c39 rows.ndjson...")
	}
	var rows []row
	for _, p := range os.Args[1:] {
		rs, err := readRows(p)
		if err != nil {
			rep.Dead("rows %s: %v", p, err)
		}
		rows = append(rows, rs...)
	}
	if len(rows) == 0 {
		rep.Dead("no behaviours")
	}
	byDepth := map[int]int{}
	steps := 0
	for i := range rows {
		byDepth[rows[i].D]++
		steps += len(rows[i].Steps) + len(rows[i].Fan)
	}
	rep.Extra["behaviours"] = len(rows)
	rep.Extra["behaviours_by_depth"] = byDepth
	rep.Extra["replayed_calls"] = steps
	rep.Extra["verify_entry_points"] = "SumXKesSig.Verify (all depths); kes.VerifySignedKES and ledger.VerifyKesComponents (depth 6)"
	rep.Extra["silent"] = "byte layout of SecretKey.Data is not compared (property is silent); p=-1 is replayed as period 2^64-1 and as slot/slotsPerKesPeriod < certificate start"

	// a small sample of real rows for the evidence
	for i := range rows {
		if rows[i].Kind == "hist" && rows[i].D == 2 && len(rows[i].Steps) >= 3 {
			rep.Sample(rows[i])
			break
		}
	}
	for i := range rows {
		if rows[i].Kind == "fan" && rows[i].D <= 2 && len(rows[i].Fan) > 40 {
			r := rows[i]
			var acc []entry
			for _, en := range r.Fan {
				if en.C.Op == "verify" && (en.E.Ok || len(acc) < 3) {
					acc = append(acc, en)
				}
			}
			rep.Sample(map[string]any{"kind": "fan(excerpt)", "d": r.D, "t": r.T, "steps": r.Steps, "fan": acc, "fan_size": len(r.Fan)})
			break
		}
	}

	nw := runtime.NumCPU()
	if nw > 8 {
		nw = 8
	}
	var wg sync.WaitGroup
	ch := make(chan int, len(rows))
	for i := range rows {
		ch <- i
	}
	close(ch)
	for k := 0; k < nw; k++ {
		wg.Add(1)
		go func() {
			defer wg.Done()
			for i := range ch {
				rs := rowSeed(vh.Seed(), i)
				if rows[i].Rseed != nil {
					rs = *rows[i].Rseed
				}
				runRow(rep, &rows[i], rs)
			}
		}()
	}
	wg.Wait()
	rep.Finish()
}
