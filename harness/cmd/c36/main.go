// c36: era dispatch (C36) and chain-sync wrapping (C22).
//
//	c36 dump <repo> <out.json> <maxMajor>   the code's own tables as JSON: they become the
//	                                        constants of spec/ledger/EraDispatch.tla (TB binding)
//	c36 replay36 <repo> <cases36.ndjson>    every fixture block through every decoding entry
//	                                        point, expectations from the TLC rows
//	c36 replay22 <repo> <cases22.ndjson>    every fixture block through the chain-sync
//	                                        roll-forward constructors / wrappers and through a
//	                                        real Server.RollForward -> client callback round trip
//	c36 serve22 <repo> <serve22.ndjson>...  histories of interleaved construct / encode steps of
//	                                        several serve operations (ChainSyncServe.tla), and two
//	                                        connections served concurrently through real engines
package main

import (
	"encoding/json"
	"fmt"
	"os"
	"sort"
	"strconv"

	"github.com/blinklabs-io/gouroboros/cbor"
	"github.com/blinklabs-io/gouroboros/ledger"
	"github.com/blinklabs-io/gouroboros/ledger/allegra"
	"github.com/blinklabs-io/gouroboros/ledger/alonzo"
	"github.com/blinklabs-io/gouroboros/ledger/babbage"
	"github.com/blinklabs-io/gouroboros/ledger/byron"
	"github.com/blinklabs-io/gouroboros/ledger/common"
	"github.com/blinklabs-io/gouroboros/ledger/conway"
	"github.com/blinklabs-io/gouroboros/ledger/dijkstra"
	"github.com/blinklabs-io/gouroboros/ledger/mary"
	"github.com/blinklabs-io/gouroboros/ledger/shelley"

	"verifharness/vh"
)

func main() {
	rep := vh.NewReporter()
	if len(os.Args) < 4 {
		rep.Dead("usage: c36 dump|replay36|replay22 <repo> <file> [...]")
	}
	switch os.Args[1] {
	case "dump":
		maxMajor := 64
		if len(os.Args) > 4 {
			if n, err := strconv.Atoi(os.Args[4]); err == nil {
				maxMajor = n
			}
		}
		dump(rep, os.Args[3], maxMajor)
	case "replay36":
		replay36(rep, os.Args[2], os.Args[3])
	case "replay22":
		replay22(rep, os.Args[2], os.Args[3])
	case "serve22":
		serve22(rep, os.Args[2], os.Args[3:])
	default:
		rep.Dead("unknown mode %q", os.Args[1])
	}
	rep.Finish()
}

// ---------------------------------------------------------------- dump (TB)

type eraDecl struct {
	Era     string `json:"era"` // which era package the values were read from
	Name    string `json:"name"`
	Id      int    `json:"id"`
	ConstId int    `json:"const_id"`
	Min     int    `json:"min"`
	Max     int    `json:"max"`
	BType   int    `json:"btype"`
	HType   int    `json:"htype"`
}

type dispatchRow struct {
	Layout int    `json:"layout"`
	Major  int    `json:"major"`
	Ok     bool   `json:"ok"`
	Type   int    `json:"type"`
	Err    string `json:"err"`
}

// syntheticHeader builds the minimal header DetermineBlockType reads: a
// header body with `fields` items and the protocol major where that layout
// keeps it.
func syntheticHeader(fields int, major uint64) ([]byte, error) {
	body := make([]any, fields)
	for i := range body {
		body[i] = uint64(0)
	}
	if fields == 15 {
		body[13] = major
		body[14] = uint64(0)
	} else {
		body[9] = []any{major, uint64(0)}
	}
	return cbor.Encode([]any{body, []byte{}})
}

func dump(rep *vh.Reporter, out string, maxMajor int) {
	eras := []eraDecl{
		{"Shelley", shelley.EraShelley.Name, int(shelley.EraShelley.Id), shelley.EraIdShelley, shelley.MinProtocolVersionShelley, shelley.MaxProtocolVersionShelley, shelley.BlockTypeShelley, shelley.BlockHeaderTypeShelley},
		{"Allegra", allegra.EraAllegra.Name, int(allegra.EraAllegra.Id), allegra.EraIdAllegra, allegra.MinProtocolVersionAllegra, allegra.MaxProtocolVersionAllegra, allegra.BlockTypeAllegra, allegra.BlockHeaderTypeAllegra},
		{"Mary", mary.EraMary.Name, int(mary.EraMary.Id), mary.EraIdMary, mary.MinProtocolVersionMary, mary.MaxProtocolVersionMary, mary.BlockTypeMary, mary.BlockHeaderTypeMary},
		{"Alonzo", alonzo.EraAlonzo.Name, int(alonzo.EraAlonzo.Id), alonzo.EraIdAlonzo, alonzo.MinProtocolVersionAlonzo, alonzo.MaxProtocolVersionAlonzo, alonzo.BlockTypeAlonzo, alonzo.BlockHeaderTypeAlonzo},
		{"Babbage", babbage.EraBabbage.Name, int(babbage.EraBabbage.Id), babbage.EraIdBabbage, babbage.MinProtocolVersionBabbage, babbage.MaxProtocolVersionBabbage, babbage.BlockTypeBabbage, babbage.BlockHeaderTypeBabbage},
		{"Conway", conway.EraConway.Name, int(conway.EraConway.Id), conway.EraIdConway, conway.MinProtocolVersionConway, conway.MaxProtocolVersionConway, conway.BlockTypeConway, conway.BlockHeaderTypeConway},
		{"Dijkstra", dijkstra.EraDijkstra.Name, int(dijkstra.EraDijkstra.Id), dijkstra.EraIdDijkstra, dijkstra.MinProtocolVersionDijkstra, dijkstra.MaxProtocolVersionDijkstra, dijkstra.BlockTypeDijkstra, dijkstra.BlockHeaderTypeDijkstra},
	}
	byronDecl := map[string]any{
		"era": "Byron", "name": byron.EraByron.Name, "id": int(byron.EraByron.Id), "const_id": byron.EraIdByron,
		"ebb": byron.BlockTypeByronEbb, "main": byron.BlockTypeByronMain, "htype": byron.BlockHeaderTypeByron,
	}
	var disp []dispatchRow
	for _, layout := range []int{15, 10} {
		for m := 0; m <= maxMajor; m++ {
			hdr, err := syntheticHeader(layout, uint64(m))
			if err != nil {
				rep.Dead("synthetic header: %v", err)
			}
			row := dispatchRow{Layout: layout, Major: m}
			key := fmt.Sprintf("dispatch:layout=%d:major=%d", layout, m)
			rep.Guard(key, map[string]any{"header": fmt.Sprintf("%x", hdr)}, func() {
				t, err := ledger.DetermineBlockType(hdr)
				row.Ok = err == nil
				if err == nil {
					row.Type = int(t)
				} else {
					row.Err = err.Error()
				}
			})
			rep.Case(key, true)
			disp = append(disp, row)
		}
	}
	pairs := func(m map[uint]uint) [][2]int {
		var out [][2]int
		for k, v := range m {
			out = append(out, [2]int{int(k), int(v)})
		}
		sort.Slice(out, func(i, j int) bool { return out[i][0] < out[j][0] })
		return out
	}
	b2h := pairs(ledger.BlockToBlockHeaderTypeMap)
	h2b := pairs(ledger.BlockHeaderToBlockTypeMap)
	var byId []map[string]any
	for i := 0; i < 16; i++ {
		e := ledger.GetEraById(uint8(i))
		byId = append(byId, map[string]any{"id": i, "rid": int(e.Id), "name": e.Name})
		rep.Case(fmt.Sprintf("eraid=%d", i), true)
	}
	for _, e := range eras {
		rep.Case("era="+e.Era, true)
	}
	for _, p := range b2h {
		rep.Case(fmt.Sprintf("b2h=%d", p[0]), true)
	}
	for _, p := range h2b {
		rep.Case(fmt.Sprintf("h2b=%d", p[0]), true)
	}
	tables := map[string]any{
		"eras": eras, "byron": byronDecl, "dispatch": disp,
		"b2h": b2h, "h2b": h2b, "era_by_id": byId,
	}
	buf, err := json.Marshal(tables)
	if err != nil {
		rep.Dead("marshal: %v", err)
	}
	if err := os.WriteFile(out, buf, 0o644); err != nil {
		rep.Dead("write: %v", err)
	}
	rep.Sample(map[string]any{"eras": eras, "b2h": b2h, "h2b": h2b})
	rep.Sample(map[string]any{"dispatch_10_field_major_9": disp[maxMajor+1+9]})
}

// ------------------------------------------------------------ replay36 (RP)

type row36 struct {
	Op      string `json:"op"`
	Kind    string `json:"kind"`
	As      int    `json:"as"`
	Must    bool   `json:"must"`
	May     bool   `json:"may"`
	Type    int    `json:"type"`
	EraId   int    `json:"era_id"`
	EraName string `json:"era_name"`
	Layout  int    `json:"layout"`
	Majors  []int  `json:"majors"`
	// classify rows
	Major    int   `json:"major"`
	MustType int   `json:"must_type"`
	Stated   bool  `json:"stated"`
	Allowed  []int `json:"allowed"`
}

// outcome of one entry point
type outcome struct {
	ok      bool
	hasType bool
	typ     int
	era     common.Era
	err     string
}

type entry struct {
	name string
	// header=true: the entry point takes the header bytes
	header bool
	run    func(t uint, data []byte) outcome
}

func fromBlock(b ledger.Block, err error) outcome {
	if err != nil {
		return outcome{err: err.Error()}
	}
	return outcome{ok: true, hasType: true, typ: b.Type(), era: b.Era()}
}

func fromHeader(h ledger.BlockHeader, err error) outcome {
	if err != nil {
		return outcome{err: err.Error()}
	}
	return outcome{ok: true, era: h.Era()}
}

var skip = common.VerifyConfig{SkipBodyHashValidation: true}

// eraCtor: the per-era constructors the generic switch is supposed to agree with
func eraCtor(t uint, data []byte, cfg ...common.VerifyConfig) (ledger.Block, error) {
	switch t {
	case 0:
		return nilIfErr(ledger.NewByronEpochBoundaryBlockFromCbor(data, cfg...))
	case 1:
		return nilIfErr(ledger.NewByronMainBlockFromCbor(data, cfg...))
	case 2:
		return nilIfErr(ledger.NewShelleyBlockFromCbor(data, cfg...))
	case 3:
		return nilIfErr(ledger.NewAllegraBlockFromCbor(data, cfg...))
	case 4:
		return nilIfErr(ledger.NewMaryBlockFromCbor(data, cfg...))
	case 5:
		return nilIfErr(ledger.NewAlonzoBlockFromCbor(data, cfg...))
	case 6:
		return nilIfErr(ledger.NewBabbageBlockFromCbor(data, cfg...))
	case 7:
		return nilIfErr(ledger.NewConwayBlockFromCbor(data, cfg...))
	case 8:
		return nilIfErr(ledger.NewDijkstraBlockFromCbor(data, cfg...))
	}
	return nil, errNoCtor
}

var errNoCtor = fmt.Errorf("no constructor for this type")

func nilIfErr[B ledger.Block](b B, err error) (ledger.Block, error) {
	if err != nil {
		return nil, err
	}
	return b, nil
}

func eraHeaderCtor(t uint, data []byte) (ledger.BlockHeader, error) {
	wrap := func(h ledger.BlockHeader, err error) (ledger.BlockHeader, error) {
		if err != nil {
			return nil, err
		}
		return h, nil
	}
	switch t {
	case 0:
		h, err := ledger.NewByronEpochBoundaryBlockHeaderFromCbor(data)
		return wrap(h, err)
	case 1:
		h, err := ledger.NewByronMainBlockHeaderFromCbor(data)
		return wrap(h, err)
	case 2:
		h, err := ledger.NewShelleyBlockHeaderFromCbor(data)
		return wrap(h, err)
	case 3:
		h, err := ledger.NewAllegraBlockHeaderFromCbor(data)
		return wrap(h, err)
	case 4:
		h, err := ledger.NewMaryBlockHeaderFromCbor(data)
		return wrap(h, err)
	case 5:
		h, err := ledger.NewAlonzoBlockHeaderFromCbor(data)
		return wrap(h, err)
	case 6:
		h, err := ledger.NewBabbageBlockHeaderFromCbor(data)
		return wrap(h, err)
	case 7:
		h, err := ledger.NewConwayBlockHeaderFromCbor(data)
		return wrap(h, err)
	case 8:
		h, err := ledger.NewDijkstraBlockHeaderFromCbor(data)
		return wrap(h, err)
	}
	return nil, errNoCtor
}

// rawDecode: plain cbor.Decode into the era's block struct (UnmarshalCBOR path)
func rawDecode(t uint, data []byte) (ledger.Block, error) {
	var b ledger.Block
	switch t {
	case 0:
		b = &byron.ByronEpochBoundaryBlock{}
	case 1:
		b = &byron.ByronMainBlock{}
	case 2:
		b = &shelley.ShelleyBlock{}
	case 3:
		b = &allegra.AllegraBlock{}
	case 4:
		b = &mary.MaryBlock{}
	case 5:
		b = &alonzo.AlonzoBlock{}
	case 6:
		b = &babbage.BabbageBlock{}
	case 7:
		b = &conway.ConwayBlock{}
	case 8:
		b = &dijkstra.DijkstraBlock{}
	default:
		return nil, errNoCtor
	}
	if _, err := cbor.Decode(data, b); err != nil {
		return nil, err
	}
	return b, nil
}

var entries = []entry{
	{"NewBlockFromCbor", false, func(t uint, d []byte) outcome { return fromBlock(ledger.NewBlockFromCbor(t, d)) }},
	{"NewBlockFromCbor+skipBodyHash", false, func(t uint, d []byte) outcome { return fromBlock(ledger.NewBlockFromCbor(t, d, skip)) }},
	{"NewBlockFromCborWithOffsets", false, func(t uint, d []byte) outcome {
		bo, err := ledger.NewBlockFromCborWithOffsets(t, d)
		if err != nil {
			return outcome{err: err.Error()}
		}
		return fromBlock(bo.Block, nil)
	}},
	{"New<Era>BlockFromCbor", false, func(t uint, d []byte) outcome { return fromBlock(eraCtor(t, d)) }},
	{"New<Era>BlockFromCbor+skipBodyHash", false, func(t uint, d []byte) outcome { return fromBlock(eraCtor(t, d, skip)) }},
	{"cbor.Decode(<Era>Block)", false, func(t uint, d []byte) outcome { return fromBlock(rawDecode(t, d)) }},
	{"NewBlockFromCbor.Header()", false, func(t uint, d []byte) outcome {
		b, err := ledger.NewBlockFromCbor(t, d, skip)
		if err != nil {
			return outcome{err: err.Error()}
		}
		h := b.Header()
		if h == nil {
			return outcome{err: "Header() is nil"}
		}
		return fromHeader(h, nil)
	}},
	{"NewBlockHeaderFromCbor", true, func(t uint, d []byte) outcome { return fromHeader(ledger.NewBlockHeaderFromCbor(t, d)) }},
	{"New<Era>BlockHeaderFromCbor", true, func(t uint, d []byte) outcome { return fromHeader(eraHeaderCtor(t, d)) }},
}

// headerBytes: the header item of the block as it sits in the block bytes.
// Byron blocks are [header, body, extra] as well.
func headerBytes(f fixture) ([]byte, error) { return headerOf(f.Bytes) }

func variants(rep *vh.Reporter, fx []fixture, rows []row36) []fixture {
	// generated blocks: every fixture of a post-Byron kind re-issued with each
	// major the spec row names for that era (and, for the Leios-extended
	// Dijkstra fixture, also with the plain ten-field header body)
	var out []fixture
	for _, r := range rows {
		if r.Op != "reissue" {
			continue
		}
		for _, f := range fx {
			if f.Kind != r.Kind {
				continue
			}
			hdr, err := headerOf(f.Bytes)
			if err != nil {
				rep.Dead("fixture %s: %v", f.Name, err)
			}
			fields, _, err := headerShape(hdr)
			if err != nil {
				rep.Dead("fixture %s header: %v", f.Name, err)
			}
			cuts := []int{0}
			if fields > r.Layout {
				cuts = append(cuts, r.Layout)
			}
			for _, cut := range cuts {
				for _, m := range r.Majors {
					nb, err := withMajor(f.Bytes, m, cut)
					if err != nil {
						rep.Dead("rewrite %s major %d: %v", f.Name, m, err)
					}
					lay := fields
					if cut > 0 {
						lay = cut
					}
					out = append(out, fixture{
						Name: fmt.Sprintf("%s~major=%d~fields=%d", f.Name, m, lay),
						Kind: f.Kind, Path: f.Path, Bytes: nb, Gen: true, Major: m, Layout: lay,
					})
				}
			}
		}
	}
	return out
}

func replay36(rep *vh.Reporter, repo, casesPath string) {
	rows, err := vh.ReadNDJSON[row36](casesPath)
	if err != nil || len(rows) == 0 {
		rep.Dead("cases: %v", err)
	}
	fx, err := loadFixtures(repo)
	if err != nil {
		rep.Dead("fixtures: %v", err)
	}
	gen := variants(rep, fx, rows)
	all := append(append([]fixture{}, fx...), gen...)
	kindsSeen := map[string]int{}
	silent := 0
	nativeErrors := map[string]string{} // own-type decodes an entry point refused (observation)
	nativeOk := map[string]int{}        // fixture -> entry points that decoded it as its own type
	for _, r := range rows {
		for _, f := range all {
			if f.Kind != r.Kind {
				continue
			}
			kindsSeen[r.Kind]++
			switch r.Op {
			case "decode":
				if f.Gen && !r.Must {
					continue // generated variants only through their own type
				}
				hdr, herr := headerBytes(f)
				for _, e := range entries {
					data := f.Bytes
					if e.header {
						if herr != nil {
							rep.Dead("fixture %s: %v", f.Name, herr)
						}
						data = hdr
					}
					key := fmt.Sprintf("decode:kind=%s:fixture=%s:as=%d:entry=%s", r.Kind, f.Name, r.As, e.name)
					replay := map[string]any{"fixture": f.Path, "name": f.Name, "as": r.As, "entry": e.name, "expect": r}
					var o outcome
					rep.Guard(key, replay, func() { o = e.run(uint(r.As), data) })
					rep.Case(key, r.Must || o.ok)
					if r.Must && o.ok {
						nativeOk[f.Name]++
					}
					replay["got"] = map[string]any{"ok": o.ok, "type": o.typ, "era_id": o.era.Id, "era_name": o.era.Name, "err": o.err}
					switch {
					case r.Must && !o.ok:
						// the property constrains what a successful decode reports; a refusal is recorded
						nativeErrors[fmt.Sprintf("%s as its own type %d through %s", f.Name, r.As, e.name)] = o.err
					case o.ok && !r.May:
						rep.Disagree(key+":no_such_type", fmt.Sprintf("%s decoded as non-existent block type %d through %s", f.Name, r.As, e.name), replay)
					case o.ok:
						if o.hasType && o.typ != r.Type {
							rep.Disagree(key+":type", fmt.Sprintf("%s decoded as type %d through %s reports Type()=%d", f.Name, r.As, e.name, o.typ), replay)
						}
						if int(o.era.Id) != r.EraId || o.era.Name != r.EraName {
							rep.Disagree(key+":era", fmt.Sprintf("%s decoded as type %d through %s reports Era()=%d/%s, type %d belongs to %d/%s", f.Name, r.As, e.name, o.era.Id, o.era.Name, r.As, r.EraId, r.EraName), replay)
						}
					}
					if !r.Must && !o.ok {
						silent++
					}
				}
			}
		}
	}
	// classification of every post-Byron header (real and re-issued) against
	// the TLC row for its (header-body fields, major)
	classify := map[[2]int]row36{}
	for _, r := range rows {
		if r.Op == "classify" {
			classify[[2]int{r.Layout, r.Major}] = r
		}
	}
	signalling := map[string]string{}
	outside := map[string]string{} // headers in a layout the property does not quantify over
	for _, f := range all {
		if f.Kind == "byron_ebb" || f.Kind == "byron_main" {
			continue
		}
		hdr, err := headerOf(f.Bytes)
		if err != nil {
			rep.Dead("fixture %s: %v", f.Name, err)
		}
		fields, major, err := headerShape(hdr)
		if err != nil {
			rep.Dead("fixture %s header: %v", f.Name, err)
		}
		r, ok := classify[[2]int{fields, major}]
		if !ok {
			rep.Dead("no classify row for fields=%d major=%d (fixture %s)", fields, major, f.Name)
		}
		key := fmt.Sprintf("determine:kind=%s:fixture=%s:fields=%d:major=%d", f.Kind, f.Name, fields, major)
		replay := map[string]any{"fixture": f.Path, "name": f.Name, "header": fmt.Sprintf("%x", hdr), "expect": r}
		var t uint
		var derr error
		rep.Guard(key, replay, func() { t, derr = ledger.DetermineBlockType(hdr) })
		rep.Case(key, true)
		allowed := false
		for _, a := range r.Allowed {
			if derr == nil && a == int(t) {
				allowed = true
			}
		}
		switch {
		case r.MustType >= 0 && derr != nil:
			rep.Disagree(key+":unclassified", fmt.Sprintf("DetermineBlockType rejects the header of %s (%d header-body fields, major %d: declared by the era of block type %d, whose layout this is): %v", f.Name, fields, major, r.MustType, derr), replay)
		case r.MustType >= 0 && int(t) != r.MustType:
			rep.Disagree(key+":type", fmt.Sprintf("DetermineBlockType(header of %s: %d fields, major %d) = %d, the era declaring major %d has block type %d", f.Name, fields, major, t, major, r.MustType), replay)
		case derr == nil && !allowed:
			rep.Disagree(key+":range", fmt.Sprintf("DetermineBlockType(header of %s: %d fields, major %d) = %d, no era of that type declares major %d (allowed %v)", f.Name, fields, major, t, major, r.Allowed), replay)
		case derr != nil && !r.Stated:
			outside[f.Name] = fmt.Sprintf("%d header-body fields (outside the two stated layouts), major %d: DetermineBlockType -> %v (no inference; accepted)", fields, major, derr)
		}
		if !f.Gen {
			got := any(t)
			if derr != nil {
				got = derr.Error()
			}
			rep.Sample(map[string]any{"fixture": f.Name, "kind": f.Kind, "header_fields": fields, "major": major, "determined": got, "spec_must_type": r.MustType, "spec_allowed": r.Allowed})
			if r.Stated && r.MustType != typeOfKind(rows, f.Kind) {
				signalling[f.Name] = fmt.Sprintf("header major %d (%d fields): DetermineBlockType -> %v; the block itself is type %d (a header's protocol version is the issuer's signal, not the block's era)", major, fields, got, typeOfKind(rows, f.Kind))
			}
		}
	}
	for _, r := range rows {
		if r.Op == "decode" && kindsSeen[r.Kind] == 0 {
			rep.Dead("no fixture block of kind %s", r.Kind)
		}
	}
	rep.Extra["c36_fixtures"] = len(fx)
	rep.Extra["c36_generated_blocks"] = len(gen)
	rep.Extra["c36_entry_points"] = len(entries) + 1
	rep.Extra["c36_cross_type_decodes_refused"] = silent
	rep.Extra["c36_headers_whose_major_is_not_their_own_era"] = signalling
	rep.Extra["c36_headers_outside_the_two_stated_layouts"] = outside
	rep.Extra["c36_own_type_decodes_refused_by_an_entry_point"] = nativeErrors
	for _, f := range all {
		if nativeOk[f.Name] == 0 {
			rep.Dead("baseline: no entry point decodes fixture %s as its own type; nothing to check", f.Name)
		}
	}
}

func typeOfKind(rows []row36, kind string) int {
	for _, r := range rows {
		if r.Op == "decode" && r.Kind == kind && r.Must {
			return r.Type
		}
	}
	return -1
}
