package main

import (
	"bytes"
	"fmt"
	"net"
	"sync"
	"time"

	ouroboros "github.com/blinklabs-io/gouroboros"
	"github.com/blinklabs-io/gouroboros/cbor"
	"github.com/blinklabs-io/gouroboros/ledger"
	"github.com/blinklabs-io/gouroboros/protocol"
	"github.com/blinklabs-io/gouroboros/protocol/chainsync"
	pcommon "github.com/blinklabs-io/gouroboros/protocol/common"
	"golang.org/x/crypto/blake2b"

	"verifharness/vh"
)

// C22 -- what a chain-sync client receives when a block is served.
//
// The expectation of every case is the TLC row (spec/ledger/EraDispatch.tla,
// WrapRow): the type that must arrive, the era index the header must travel
// under, whether bytes / hashes must be identical.  Byte equality and hashing
// are computed here (TLC cannot), the verdict is the comparison with the row.

type row22 struct {
	Kind      string `json:"kind"`
	Mode      string `json:"mode"`
	Type      int    `json:"type"`
	Stated    bool   `json:"stated"`
	WireEra   int    `json:"wire_era"`
	SameBytes bool   `json:"same_bytes"`
	SameHash  bool   `json:"same_hash"`
}

// delivered: what the client side ended up with
type delivered struct {
	ok        bool
	err       string
	blockType int
	wireEra   int    // ntn only
	bytes     []byte // ntc: block bytes; ntn: header bytes
	hash      []byte // ntn: hash of the decoded header
}

var tip = pcommon.Tip{Point: pcommon.NewPoint(12345, bytes.Repeat([]byte{0xab}, 32)), BlockNumber: 777}

// direct: the server's message constructors and the client's message decoder,
// without the engine in between (server.go RollForward / client.go
// handleRollForward, transcribed call by call)
func directNtC(t uint, block []byte) delivered {
	msg, err := chainsync.NewMsgRollForwardNtC(t, block, tip)
	if err != nil {
		return delivered{err: "NewMsgRollForwardNtC: " + err.Error()}
	}
	wire, err := cbor.Encode(msg)
	if err != nil {
		return delivered{err: "encode: " + err.Error()}
	}
	m, err := chainsync.NewMsgFromCbor(protocol.ProtocolModeNodeToClient, chainsync.MessageTypeRollForward, wire)
	if err != nil {
		return delivered{err: "NewMsgFromCbor: " + err.Error()}
	}
	rf, ok := m.(*chainsync.MsgRollForwardNtC)
	if !ok {
		return delivered{err: fmt.Sprintf("decoded message is %T", m)}
	}
	return delivered{ok: true, blockType: int(rf.BlockType()), bytes: rf.BlockCbor()}
}

func directNtN(t uint, block []byte, byron bool) delivered {
	var era uint
	var byronType uint
	if byron {
		era = ledger.BlockHeaderTypeByron
		byronType = t
	} else {
		e, ok := ledger.BlockToBlockHeaderTypeMap[t]
		if !ok {
			return delivered{err: fmt.Sprintf("unknown block type: %d", t)}
		}
		era = e
	}
	msg, err := chainsync.NewMsgRollForwardNtN(era, byronType, block, tip)
	if err != nil {
		return delivered{err: "NewMsgRollForwardNtN: " + err.Error()}
	}
	wire, err := cbor.Encode(msg)
	if err != nil {
		return delivered{err: "encode: " + err.Error()}
	}
	m, err := chainsync.NewMsgFromCbor(protocol.ProtocolModeNodeToNode, chainsync.MessageTypeRollForward, wire)
	if err != nil {
		return delivered{err: "NewMsgFromCbor: " + err.Error()}
	}
	rf, ok := m.(*chainsync.MsgRollForwardNtN)
	if !ok {
		return delivered{err: fmt.Sprintf("decoded message is %T", m)}
	}
	d := delivered{wireEra: int(rf.WrappedHeader.Era), bytes: rf.WrappedHeader.HeaderCbor()}
	var bt uint
	if rf.WrappedHeader.Era == ledger.BlockHeaderTypeByron {
		bt = rf.WrappedHeader.ByronType()
	} else {
		bt, ok = ledger.BlockHeaderToBlockTypeMap[rf.WrappedHeader.Era]
		if !ok {
			d.err = fmt.Sprintf("unknown block header era: %d", rf.WrappedHeader.Era)
			return d
		}
	}
	d.blockType = int(bt)
	h, err := ledger.NewBlockHeaderFromCbor(bt, rf.WrappedHeader.HeaderCbor())
	if err != nil {
		d.err = "NewBlockHeaderFromCbor: " + err.Error()
		return d
	}
	d.ok = true
	d.hash = h.Hash().Bytes()
	return d
}

// engine: a real chain-sync server and a real chain-sync client (two
// ouroboros.Connection objects over net.Pipe).  The server's RequestNext
// callback calls Server.RollForward(type, bytes, tip) for the next block; the
// client's RollForward callback arguments are what is compared.
type served struct {
	t     uint
	bytes []byte
}

func engine(ntn bool, blocks []served, raw bool) ([]delivered, error) {
	cconn, sconn := net.Pipe()
	defer cconn.Close()
	defer sconn.Close()
	var mu sync.Mutex
	next := 0
	var got []delivered
	doneCh := make(chan struct{})
	var once sync.Once
	finish := func() { once.Do(func() { close(doneCh) }) }
	var sendErrs []string

	srvCfg := chainsync.NewConfig(
		chainsync.WithFindIntersectFunc(func(ctx chainsync.CallbackContext, pts []pcommon.Point) (pcommon.Point, chainsync.Tip, error) {
			return pcommon.NewPointOrigin(), tip, nil
		}),
		chainsync.WithRequestNextFunc(func(ctx chainsync.CallbackContext) error {
			mu.Lock()
			i := next
			next++
			mu.Unlock()
			if i >= len(blocks) {
				return nil // nothing more to serve; the driver closes the connection
			}
			if err := ctx.Server.RollForward(blocks[i].t, blocks[i].bytes, tip); err != nil {
				mu.Lock()
				sendErrs = append(sendErrs, fmt.Sprintf("block %d: %v", i, err))
				mu.Unlock()
				finish()
			}
			return nil
		}),
	)
	record := func(d delivered) {
		mu.Lock()
		got = append(got, d)
		n := len(got)
		mu.Unlock()
		if n >= len(blocks) {
			finish()
		}
	}
	opts := []chainsync.ChainSyncOptionFunc{chainsync.WithPipelineLimit(1)}
	if raw {
		opts = append(opts, chainsync.WithRollForwardRawFunc(func(ctx chainsync.CallbackContext, bt uint, data []byte, _ chainsync.Tip) error {
			record(delivered{ok: true, blockType: int(bt), bytes: append([]byte{}, data...)})
			return nil
		}))
	} else {
		opts = append(opts, chainsync.WithRollForwardFunc(func(ctx chainsync.CallbackContext, bt uint, data any, _ chainsync.Tip) error {
			d := delivered{ok: true, blockType: int(bt)}
			switch v := data.(type) {
			case ledger.Block:
				d.bytes = v.Cbor()
				d.hash = v.Hash().Bytes()
			case ledger.BlockHeader:
				d.bytes = v.Cbor()
				d.hash = v.Hash().Bytes()
			default:
				d.ok = false
				d.err = fmt.Sprintf("callback data is %T", data)
			}
			record(d)
			return nil
		}))
	}
	cliCfg := chainsync.NewConfig(opts...)

	type res struct {
		c   *ouroboros.Connection
		err error
	}
	sch := make(chan res, 1)
	go func() {
		c, err := ouroboros.NewConnection(
			ouroboros.WithConnection(sconn), ouroboros.WithNetworkMagic(42),
			ouroboros.WithServer(true), ouroboros.WithNodeToNode(ntn),
			ouroboros.WithChainSyncConfig(srvCfg))
		sch <- res{c, err}
	}()
	cli, err := ouroboros.NewConnection(
		ouroboros.WithConnection(cconn), ouroboros.WithNetworkMagic(42),
		ouroboros.WithNodeToNode(ntn), ouroboros.WithChainSyncConfig(cliCfg))
	if err != nil {
		return nil, fmt.Errorf("client connection: %w", err)
	}
	defer cli.Close()
	var srv *ouroboros.Connection
	select {
	case r := <-sch:
		if r.err != nil {
			return nil, fmt.Errorf("server connection: %w", r.err)
		}
		srv = r.c
	case <-time.After(10 * time.Second):
		return nil, fmt.Errorf("server handshake timeout")
	}
	defer srv.Close()
	go func() {
		select {
		case e := <-cli.ErrorChan():
			if e != nil {
				mu.Lock()
				sendErrs = append(sendErrs, "client: "+e.Error())
				mu.Unlock()
				finish()
			}
		case e := <-srv.ErrorChan():
			if e != nil {
				mu.Lock()
				sendErrs = append(sendErrs, "server: "+e.Error())
				mu.Unlock()
				finish()
			}
		case <-doneCh:
		}
	}()
	if err := cli.ChainSync().Client.Sync(nil); err != nil {
		return nil, fmt.Errorf("Sync: %w", err)
	}
	select {
	case <-doneCh:
	case <-time.After(20 * time.Second):
		return nil, fmt.Errorf("timeout: %d of %d blocks delivered", len(got), len(blocks))
	}
	mu.Lock()
	defer mu.Unlock()
	if len(sendErrs) > 0 && len(got) < len(blocks) {
		out := append([]delivered{}, got...)
		out = append(out, delivered{err: sendErrs[0]})
		return out, nil
	}
	return append([]delivered{}, got...), nil
}

func replay22(rep *vh.Reporter, repo, casesPath string) {
	rows, err := vh.ReadNDJSON[row22](casesPath)
	if err != nil || len(rows) == 0 {
		rep.Dead("cases: %v", err)
	}
	fx, err := loadFixtures(repo)
	if err != nil {
		rep.Dead("fixtures: %v", err)
	}
	// generated variants: each post-Byron fixture with every major of its era
	// (rows of cases36 are not available here; reuse the declared ranges that
	// the fixture's own era states through its header)
	all := append([]fixture{}, fx...)
	for _, f := range fx {
		if f.Kind == "byron_ebb" || f.Kind == "byron_main" {
			continue
		}
		hdr, err := headerOf(f.Bytes)
		if err != nil {
			rep.Dead("fixture %s: %v", f.Name, err)
		}
		fields, major, err := headerShape(hdr)
		if err != nil {
			rep.Dead("fixture %s: %v", f.Name, err)
		}
		// re-encoded copy with the same major: same block, different header bytes
		nb, err := withMajor(f.Bytes, major, 0)
		if err != nil {
			rep.Dead("rewrite %s: %v", f.Name, err)
		}
		all = append(all, fixture{Name: fmt.Sprintf("%s~reencoded~fields=%d", f.Name, fields), Kind: f.Kind, Path: f.Path, Bytes: nb, Gen: true})
	}

	// the block's own identity, from decoding it as what it is
	type ident struct {
		hash    []byte
		hdrHash []byte // blake2b-256 of the header bytes (post-Byron definition)
	}
	idOf := map[string]ident{}
	typeOf := map[string]int{}
	for _, r := range rows {
		typeOf[r.Kind] = r.Type
	}
	for _, f := range all {
		t, ok := typeOf[f.Kind]
		if !ok {
			rep.Dead("no row for kind %s", f.Kind)
		}
		var b ledger.Block
		var derr error
		rep.Guard("c22:decode:"+f.Name, map[string]any{"fixture": f.Path}, func() { b, derr = ledger.NewBlockFromCbor(uint(t), f.Bytes) })
		if derr != nil || b == nil {
			rep.Dead("baseline: fixture %s does not decode as type %d: %v", f.Name, t, derr)
		}
		id := ident{hash: b.Hash().Bytes()}
		if t >= 2 {
			hdr, _ := headerOf(f.Bytes)
			s := blake2b.Sum256(hdr)
			id.hdrHash = s[:]
		}
		idOf[f.Name] = id
	}

	check := func(path string, r row22, f fixture, d delivered) {
		key := fmt.Sprintf("wrap:mode=%s:kind=%s:fixture=%s:path=%s", r.Mode, r.Kind, f.Name, path)
		replay := map[string]any{"fixture": f.Path, "name": f.Name, "mode": r.Mode, "path": path, "expect": r,
			"got": map[string]any{"ok": d.ok, "err": d.err, "type": d.blockType, "wire_era": d.wireEra, "hash": fmt.Sprintf("%x", d.hash), "len": len(d.bytes)}}
		rep.Case(key, r.Stated)
		if !r.Stated {
			return
		}
		if !d.ok {
			rep.Disagree(key+":not_delivered", fmt.Sprintf("%s served over %s (%s) is not delivered: %s", f.Name, r.Mode, path, d.err), replay)
			return
		}
		if d.blockType != r.Type {
			rep.Disagree(key+":type", fmt.Sprintf("%s (type %d) served over %s (%s) arrives as type %d", f.Name, r.Type, r.Mode, path, d.blockType), replay)
		}
		if r.Mode == "ntn" && path == "direct" && d.wireEra != r.WireEra {
			rep.Disagree(key+":wire_era", fmt.Sprintf("%s served over ntn travels under era %d, its era index is %d", f.Name, d.wireEra, r.WireEra), replay)
		}
		if r.SameBytes && !bytes.Equal(d.bytes, f.Bytes) {
			rep.Disagree(key+":bytes", fmt.Sprintf("%s served over %s (%s): delivered bytes differ from served bytes (%d vs %d bytes)", f.Name, r.Mode, path, len(d.bytes), len(f.Bytes)), replay)
		}
		if r.Mode == "ntn" && r.SameHash && d.hash != nil {
			id := idOf[f.Name]
			if !bytes.Equal(d.hash, id.hash) {
				rep.Disagree(key+":hash", fmt.Sprintf("%s served over ntn (%s): header hash %x, block hash %x", f.Name, path, d.hash, id.hash), replay)
			}
			if id.hdrHash != nil && !bytes.Equal(id.hash, id.hdrHash) {
				rep.Disagree(key+":block_hash", fmt.Sprintf("%s: Block.Hash() %x is not the hash of its header bytes %x", f.Name, id.hash, id.hdrHash), replay)
			}
		}
		if r.Mode == "ntn" && r.SameHash && d.hash == nil && d.bytes != nil {
			// raw callback: only header bytes are delivered; they must be the block's header item
			hdr, _ := headerOf(f.Bytes)
			if !bytes.Equal(d.bytes, hdr) {
				rep.Disagree(key+":header_bytes", fmt.Sprintf("%s served over ntn (%s): delivered header bytes differ from the block's header", f.Name, path), replay)
			}
		}
	}

	unstated := map[string]string{}
	for _, r := range rows {
		var blocks []served
		var fs []fixture
		for _, f := range all {
			if f.Kind != r.Kind {
				continue
			}
			fs = append(fs, f)
			blocks = append(blocks, served{uint(r.Type), f.Bytes})
			// direct path
			var d delivered
			key := fmt.Sprintf("wrap:mode=%s:kind=%s:fixture=%s:path=direct", r.Mode, r.Kind, f.Name)
			rep.Guard(key, map[string]any{"fixture": f.Path}, func() {
				if r.Mode == "ntc" {
					d = directNtC(uint(r.Type), f.Bytes)
				} else {
					d = directNtN(uint(r.Type), f.Bytes, false)
				}
			})
			check("direct", r, f, d)
			if !r.Stated {
				unstated[r.Kind+"/"+r.Mode+"/Server.RollForward"] = fmt.Sprintf("ok=%v %s", d.ok, d.err)
				var d2 delivered
				rep.Guard(key+":byron-ctor", map[string]any{"fixture": f.Path}, func() { d2 = directNtN(uint(r.Type), f.Bytes, true) })
				hashOk := d2.ok && bytes.Equal(d2.hash, idOf[f.Name].hash)
				unstated[r.Kind+"/"+r.Mode+"/NewMsgRollForwardNtN(era=0,byronType)"] = fmt.Sprintf("ok=%v type=%d header-hash-equals-block-hash=%v %s", d2.ok, d2.blockType, hashOk, d2.err)
			}
			if !f.Gen && (r.Kind == "shelley" || r.Kind == "conway" || r.Kind == "dijkstra") && (r.Mode == "ntn" || r.Kind == "conway") {
				rep.Sample(map[string]any{"fixture": f.Name, "mode": r.Mode, "served_type": r.Type, "delivered_type": d.blockType, "wire_era": d.wireEra, "ok": d.ok, "stated": r.Stated})
			}
		}
		if len(fs) == 0 {
			rep.Dead("no fixture block of kind %s", r.Kind)
		}
		if !r.Stated {
			continue
		}
		// engine path: decoded callback and raw callback
		for _, raw := range []bool{false, true} {
			path := "engine"
			if raw {
				path = "engine-raw"
			}
			var ds []delivered
			var eerr error
			key := fmt.Sprintf("wrap:mode=%s:kind=%s:path=%s", r.Mode, r.Kind, path)
			rep.Guard(key, map[string]any{"kind": r.Kind, "mode": r.Mode}, func() { ds, eerr = engine(r.Mode == "ntn", blocks, raw) })
			if eerr != nil {
				rep.Dead("engine round trip %s: %v", key, eerr)
			}
			for i, f := range fs {
				if i < len(ds) {
					check(path, r, f, ds[i])
				} else {
					check(path, r, f, delivered{err: "connection ended before this block was delivered"})
				}
			}
		}
	}
	rep.Extra["c22_fixtures"] = len(fx)
	rep.Extra["c22_reencoded_variants"] = len(all) - len(fx)
	rep.Extra["c22_not_stated_by_property"] = unstated
}
