package main

import (
	"bytes"
	"fmt"
	"math/rand"
	"runtime"
	"runtime/debug"
	"strings"
	"sync"

	"github.com/blinklabs-io/gouroboros/cbor"
	"github.com/blinklabs-io/gouroboros/ledger"
	"github.com/blinklabs-io/gouroboros/protocol"
	"github.com/blinklabs-io/gouroboros/protocol/chainsync"

	"verifharness/vh"
)

// C22, history dimension (spec/ledger/ChainSyncServe.tla): several serve
// operations whose construct / encode steps interleave.  Each TLC row names the
// blocks, the exact step order and, per operation, the block whose identity
// must arrive (deliver[i] = i: what is delivered for A depends only on A).
//
// Constructor level: the steps are executed in one goroutine in exactly the
// order of the row.  Detection of state shared between constructions may
// depend on the allocator / sync.Pool handing the same memory back, which a
// single goroutine on one P with no GC in between makes repeatable; soundness
// does not depend on it: a disagreement is only ever a real byte / hash
// mismatch of what was decoded, a missed reuse is a pass.

type serveOp struct {
	Kind string `json:"kind"`
	Sib  bool   `json:"sib"`
}
type serveStep struct {
	S string `json:"s"`
	I int    `json:"i"`
}
type rowServe struct {
	Mode    string      `json:"mode"`
	Ops     []serveOp   `json:"ops"`
	Order   []serveStep `json:"order"`
	Deliver []int       `json:"deliver"`
}

type srvBlock struct {
	name  string
	typ   uint
	bytes []byte
	hdr   []byte
	hash  []byte // Block.Hash() of the block decoded as its own type (post-Byron)
}

// sibling: the same block with one flipped byte inside its header -- same era,
// same shape, different identity.  Post-Byron: the last byte of the header (the
// tail of the KES signature).  Byron: the last byte of the first 32-byte string
// of the header (the previous-block hash); the header's last byte is structure
// there.
func sibling(block []byte, byron bool) ([]byte, error) {
	hdr, err := headerOf(block)
	if err != nil {
		return nil, err
	}
	idx := bytes.Index(block, hdr)
	if idx < 0 || idx > 9 {
		return nil, fmt.Errorf("header not found at the start of the block")
	}
	out := bytes.Clone(block)
	if byron {
		p := bytes.Index(hdr, []byte{0x58, 0x20})
		if p < 0 || p+34 > len(hdr) {
			return nil, fmt.Errorf("no 32-byte string in the header")
		}
		out[idx+p+2+31] ^= 0x5a
	} else {
		out[idx+len(hdr)-1] ^= 0x5a
	}
	var probe cbor.RawMessage
	if n, err := cbor.Decode(out, &probe); err != nil || n != len(out) {
		return nil, fmt.Errorf("sibling is not well-formed CBOR: %v", err)
	}
	return out, nil
}

var kindType = map[string]uint{"byron_ebb": 0, "byron_main": 1, "shelley": 2, "allegra": 3, "mary": 4,
	"alonzo": 5, "babbage": 6, "conway": 7, "dijkstra": 8}

func serveBlocks(rep *vh.Reporter, repo string) map[string]*srvBlock {
	fx, err := loadFixtures(repo)
	if err != nil {
		rep.Dead("fixtures: %v", err)
	}
	out := map[string]*srvBlock{}
	for _, f := range fx {
		if _, dup := out[f.Kind]; dup {
			continue // first fixture of each kind
		}
		t := kindType[f.Kind]
		for _, sib := range []bool{false, true} {
			b := &srvBlock{name: f.Name, typ: t, bytes: f.Bytes}
			key := f.Kind
			if sib {
				sb, err := sibling(f.Bytes, t < 2)
				if err != nil {
					rep.Dead("sibling of %s: %v", f.Name, err)
				}
				b.name, b.bytes, key = f.Name+"~sib", sb, f.Kind+"~sib"
			}
			if t >= 2 {
				var blk ledger.Block
				var derr error
				rep.Guard("serve:decode:"+b.name, nil, func() { blk, derr = ledger.NewBlockFromCbor(t, b.bytes) })
				if derr != nil || blk == nil {
					rep.Dead("baseline: %s does not decode as type %d: %v", b.name, t, derr)
				}
				b.hash = blk.Hash().Bytes()
				b.hdr, _ = headerOf(b.bytes)
			}
			out[key] = b
		}
		if out[f.Kind].hash != nil && bytes.Equal(out[f.Kind].hash, out[f.Kind+"~sib"].hash) {
			rep.Dead("baseline: %s and its sibling have the same hash", f.Name)
		}
	}
	return out
}

func opKey(o serveOp) string {
	if o.Sib {
		return o.Kind + "~sib"
	}
	return o.Kind
}

func serve22(rep *vh.Reporter, repo string, paths []string) {
	blocks := serveBlocks(rep, repo)
	var rows []rowServe
	for _, p := range paths {
		r, err := vh.ReadNDJSON[rowServe](p)
		if err != nil || len(r) == 0 {
			rep.Dead("cases %s: %v", p, err)
		}
		rows = append(rows, r...)
	}

	// ---- constructor level, one goroutine, exact step order of the row
	func() {
		runtime.LockOSThread()
		defer runtime.UnlockOSThread()
		defer runtime.GOMAXPROCS(runtime.GOMAXPROCS(1))
		defer debug.SetGCPercent(debug.SetGCPercent(-1))
		for n, r := range rows {
			if n%40 == 0 {
				runtime.GC() // between rows only: never between the steps of one history
			}
			var names, steps []string
			for _, o := range r.Ops {
				names = append(names, opKey(o))
			}
			for _, s := range r.Order {
				steps = append(steps, fmt.Sprintf("%s%d", s.S, s.I))
			}
			base := fmt.Sprintf("serve:mode=%s:ops=%s:order=%s", r.Mode, strings.Join(names, "+"), strings.Join(steps, "."))
			replay := map[string]any{"row": r}
			rep.Guard(base, replay, func() { runHistory(rep, blocks, r, base, replay) })
			if r.Mode == "ntn" && len(r.Ops) == 2 && r.Ops[1].Sib && steps[1] == "c2" && steps[2] == "e1" {
				rep.Sample(map[string]any{"history": base, "deliver": r.Deliver})
			}
		}
	}()
	rep.Extra["c22_histories_executed"] = len(rows)

	// ---- two connections served from two goroutines through real engines
	concurrent(rep, blocks)
}

func runHistory(rep *vh.Reporter, blocks map[string]*srvBlock, r rowServe, base string, replay map[string]any) {
	n := len(r.Ops)
	msgs := make([]protocol.Message, n+1)
	for _, st := range r.Order {
		b := blocks[opKey(r.Ops[st.I-1])]
		if b == nil {
			rep.Dead("no block for %v", r.Ops[st.I-1])
		}
		switch st.S {
		case "c":
			var m protocol.Message
			var err error
			if r.Mode == "ntc" {
				m, err = chainsync.NewMsgRollForwardNtC(b.typ, b.bytes, tip)
			} else {
				era, ok := ledger.BlockToBlockHeaderTypeMap[b.typ]
				if !ok {
					rep.Disagree(fmt.Sprintf("%s:op=%d:not_delivered", base, st.I), fmt.Sprintf("%s: no header type for block type %d", b.name, b.typ), replay)
					return
				}
				m, err = chainsync.NewMsgRollForwardNtN(era, 0, b.bytes, tip)
			}
			if err != nil {
				rep.Disagree(fmt.Sprintf("%s:op=%d:not_delivered", base, st.I), fmt.Sprintf("%s: roll-forward message cannot be constructed: %v", b.name, err), replay)
				return
			}
			msgs[st.I] = m
		case "e":
			want := blocks[opKey(r.Ops[r.Deliver[st.I-1]-1])]
			key := fmt.Sprintf("%s:op=%d", base, st.I)
			rep.Case(key, true)
			wire, err := cbor.Encode(msgs[st.I])
			if err != nil {
				rep.Disagree(key+":not_delivered", fmt.Sprintf("%s: message does not encode: %v", b.name, err), replay)
				continue
			}
			mode := protocol.ProtocolModeNodeToClient
			if r.Mode == "ntn" {
				mode = protocol.ProtocolModeNodeToNode
			}
			dec, err := chainsync.NewMsgFromCbor(mode, chainsync.MessageTypeRollForward, wire)
			if err != nil {
				rep.Disagree(key+":not_delivered", fmt.Sprintf("%s: client cannot decode the message: %v", b.name, err), replay)
				continue
			}
			compareDelivered(rep, key, r.Mode, dec, want, replay)
		}
	}
}

// compareDelivered: what the client-side decoding of one roll-forward yields
// against the identity of the block that the row says must arrive.
func compareDelivered(rep *vh.Reporter, key, mode string, dec protocol.Message, want *srvBlock, replay map[string]any) {
	if mode == "ntc" {
		m, ok := dec.(*chainsync.MsgRollForwardNtC)
		if !ok {
			rep.Disagree(key+":not_delivered", fmt.Sprintf("decoded message is %T", dec), replay)
			return
		}
		if m.BlockType() != want.typ {
			rep.Disagree(key+":type", fmt.Sprintf("%s (type %d) arrives as type %d", want.name, want.typ, m.BlockType()), replay)
		}
		if !bytes.Equal(m.BlockCbor(), want.bytes) {
			rep.Disagree(key+":bytes", fmt.Sprintf("%s: delivered bytes differ from the served block's bytes", want.name), replay)
		}
		return
	}
	m, ok := dec.(*chainsync.MsgRollForwardNtN)
	if !ok {
		rep.Disagree(key+":not_delivered", fmt.Sprintf("decoded message is %T", dec), replay)
		return
	}
	bt, ok := ledger.BlockHeaderToBlockTypeMap[m.WrappedHeader.Era]
	if !ok || bt != want.typ {
		rep.Disagree(key+":type", fmt.Sprintf("%s (type %d): header era %d maps to block type %d", want.name, want.typ, m.WrappedHeader.Era, bt), replay)
		return
	}
	h, err := ledger.NewBlockHeaderFromCbor(bt, m.WrappedHeader.HeaderCbor())
	if err != nil {
		rep.Disagree(key+":not_delivered", fmt.Sprintf("%s: arrived header does not decode: %v", want.name, err), replay)
		return
	}
	if !bytes.Equal(h.Hash().Bytes(), want.hash) {
		rep.Disagree(key+":hash", fmt.Sprintf("%s: arrived header hash %x, the served block's hash is %x", want.name, h.Hash().Bytes(), want.hash), replay)
	}
}

// concurrent: two node-to-node (and two node-to-client) connections, each a
// real chain-sync server + client pair, served at the same time from their own
// goroutines through Server.RollForward.  Connection A serves the fixture
// blocks, connection B their siblings, so same-era blocks meet.  Which
// interleavings occur is up to the scheduler; every delivered block is compared
// with the block that connection served.
func concurrent(rep *vh.Reporter, blocks map[string]*srvBlock) {
	rounds := 4
	if vh.Tier() == "thorough" {
		rounds = 40
	}
	rng := rand.New(rand.NewSource(vh.Seed()))
	delivered := 0
	for _, mode := range []string{"ntn", "ntc"} {
		var kinds []string
		for k, t := range kindType {
			if mode == "ntn" && t < 2 {
				continue
			}
			kinds = append(kinds, k)
		}
		for round := 0; round < rounds; round++ {
			// seeded order, repeated a few times so that blocks keep meeting
			sortStrings(kinds)
			rng.Shuffle(len(kinds), func(i, j int) { kinds[i], kinds[j] = kinds[j], kinds[i] })
			var seqA, seqB []*srvBlock
			for rep3 := 0; rep3 < 3; rep3++ {
				for _, k := range kinds {
					seqA = append(seqA, blocks[k])
					seqB = append(seqB, blocks[k+"~sib"])
				}
			}
			var wg sync.WaitGroup
			res := make([][]delivered22, 2)
			errs := make([]error, 2)
			for c, seq := range [][]*srvBlock{seqA, seqB} {
				wg.Add(1)
				go func(c int, seq []*srvBlock) {
					defer wg.Done()
					var sv []served
					for _, b := range seq {
						sv = append(sv, served{b.typ, b.bytes})
					}
					ds, err := engine(mode == "ntn", sv, mode == "ntc")
					errs[c] = err
					for _, d := range ds {
						res[c] = append(res[c], delivered22{d})
					}
				}(c, seq)
			}
			wg.Wait()
			for c, seq := range [][]*srvBlock{seqA, seqB} {
				if errs[c] != nil {
					rep.Dead("concurrent engine round trip (%s, connection %d): %v", mode, c, errs[c])
				}
				for i, want := range seq {
					key := fmt.Sprintf("serve2conn:mode=%s:conn=%s:block=%s", mode, string(rune('A'+c)), want.name)
					rep.Case(key, true)
					replay := map[string]any{"mode": mode, "connection": c, "position": i, "block": want.name}
					if i >= len(res[c]) || !res[c][i].d.ok {
						msg := "connection ended before this block was delivered"
						if i < len(res[c]) {
							msg = res[c][i].d.err
						}
						rep.Disagree(key+":not_delivered", fmt.Sprintf("%s served over %s is not delivered: %s", want.name, mode, msg), replay)
						break
					}
					d := res[c][i].d
					delivered++
					if d.blockType != int(want.typ) {
						rep.Disagree(key+":type", fmt.Sprintf("%s (type %d) arrives as type %d", want.name, want.typ, d.blockType), replay)
					}
					if mode == "ntc" && !bytes.Equal(d.bytes, want.bytes) {
						rep.Disagree(key+":bytes", fmt.Sprintf("%s: delivered bytes differ from the served block's bytes", want.name), replay)
					}
					if mode == "ntn" && !bytes.Equal(d.hash, want.hash) {
						rep.Disagree(key+":hash", fmt.Sprintf("%s: arrived header hash %x, the served block's hash is %x (two connections served concurrently)", want.name, d.hash, want.hash), replay)
					}
				}
			}
		}
	}
	rep.Extra["c22_two_connection_blocks_delivered"] = delivered
}

type delivered22 struct{ d delivered }

func sortStrings(s []string) {
	for i := 1; i < len(s); i++ {
		for j := i; j > 0 && s[j] < s[j-1]; j-- {
			s[j], s[j-1] = s[j-1], s[j]
		}
	}
}
