package main

import (
	"encoding/hex"
	"fmt"
	"os"
	"path/filepath"
	"strings"

	"github.com/blinklabs-io/gouroboros/cbor"
)

// fixture is one real block of the repository's test data. kind is the
// reference name of what the block is (known from where the fixture comes
// from, never from decoding it).
type fixture struct {
	Name  string // stable short name used in keys
	Kind  string // byron_ebb, byron_main, shelley, ..., dijkstra
	Path  string // relative to the repository root
	Bytes []byte
	// generated variants only
	Gen    bool
	Major  int
	Layout int
}

var fixtureFiles = []struct{ name, kind, path string }{
	{"byron_ebb_testnet", "byron_ebb", "protocol/chainsync/testdata/byron_ebb_testnet_8f8602837f7c6f8b8867dd1cbc1842cf51a27eaed2c70ef48325d00f8efb320f.hex"},
	{"byron_main_mainnet", "byron_main", "internal/testdata/byron_block.hex"},
	{"byron_main_testnet", "byron_main", "protocol/chainsync/testdata/byron_main_block_testnet_f38aa5e8cf0b47d1ffa8b2385aa2d43882282db2ffd5ac0e3dadec1a6f2ecf08.hex"},
	{"shelley_mainnet", "shelley", "internal/testdata/shelley_block.hex"},
	{"shelley_testnet", "shelley", "protocol/chainsync/testdata/shelley_block_testnet_02b1c561715da9e540411123a6135ee319b02f60b9a11a603d3305556c04329f.hex"},
	{"allegra_mainnet", "allegra", "internal/testdata/allegra_block.hex"},
	{"mary_mainnet", "mary", "internal/testdata/mary_block.hex"},
	{"alonzo_mainnet", "alonzo", "internal/testdata/alonzo_block.hex"},
	{"babbage_mainnet", "babbage", "internal/testdata/babbage_block.hex"},
	{"conway_mainnet", "conway", "internal/testdata/conway_block.hex"},
	{"dijkstra_musashi", "dijkstra", "ledger/dijkstra/testdata/musashi_dijkstra_block.hex"},
}

func loadFixtures(repo string) ([]fixture, error) {
	var out []fixture
	for _, f := range fixtureFiles {
		raw, err := os.ReadFile(filepath.Join(repo, f.path))
		if err != nil {
			return nil, err
		}
		b, err := hex.DecodeString(strings.TrimSpace(string(raw)))
		if err != nil {
			return nil, fmt.Errorf("%s: %w", f.path, err)
		}
		out = append(out, fixture{Name: f.name, Kind: f.kind, Path: f.path, Bytes: b})
	}
	return out, nil
}

// headerOf returns the raw header item of a post-Byron block [header, ...].
func headerOf(block []byte) ([]byte, error) {
	var items []cbor.RawMessage
	if _, err := cbor.Decode(block, &items); err != nil {
		return nil, err
	}
	if len(items) < 2 {
		return nil, fmt.Errorf("block has %d items", len(items))
	}
	return items[0], nil
}

// headerShape returns the number of header-body fields and the protocol
// major found at the position the era's header layout puts it.
func headerShape(header []byte) (fields int, major int, err error) {
	var h []cbor.RawMessage
	if _, err = cbor.Decode(header, &h); err != nil {
		return
	}
	if len(h) != 2 {
		return 0, 0, fmt.Errorf("header has %d items", len(h))
	}
	var body []cbor.RawMessage
	if _, err = cbor.Decode(h[0], &body); err != nil {
		return
	}
	fields = len(body)
	var m uint64
	if fields == 15 {
		_, err = cbor.Decode(body[13], &m)
	} else if fields >= 10 {
		var pv []uint64
		if _, err = cbor.Decode(body[9], &pv); err == nil {
			if len(pv) < 1 {
				err = fmt.Errorf("empty protocol version")
			} else {
				m = pv[0]
			}
		}
	} else {
		err = fmt.Errorf("header body has %d fields", fields)
	}
	return fields, int(m), err
}

// withMajor rewrites the protocol major of a post-Byron block's header
// (and optionally cuts the header body to `cut` fields, 0 = keep). Only the
// header changes: the block body and therefore the body hash the header
// commits to stay valid (the KES signature is not checked by decoding).
func withMajor(block []byte, major int, cut int) ([]byte, error) {
	var items []cbor.RawMessage
	if _, err := cbor.Decode(block, &items); err != nil {
		return nil, err
	}
	var h []cbor.RawMessage
	if _, err := cbor.Decode(items[0], &h); err != nil {
		return nil, err
	}
	var body []cbor.RawMessage
	if _, err := cbor.Decode(h[0], &body); err != nil {
		return nil, err
	}
	if cut > 0 && cut < len(body) {
		body = body[:cut]
	}
	if len(body) == 15 {
		enc, err := cbor.Encode(uint64(major))
		if err != nil {
			return nil, err
		}
		body[13] = enc
	} else {
		var pv []uint64
		if _, err := cbor.Decode(body[9], &pv); err != nil {
			return nil, err
		}
		pv[0] = uint64(major)
		enc, err := cbor.Encode(pv)
		if err != nil {
			return nil, err
		}
		body[9] = enc
	}
	nb, err := cbor.Encode(body)
	if err != nil {
		return nil, err
	}
	h[0] = nb
	nh, err := cbor.Encode(h)
	if err != nil {
		return nil, err
	}
	items[0] = nh
	return cbor.Encode(items)
}
