// c26: replays every case of spec/ledger/Validity.tla (era, validity start,
// invalid-hereafter / ttl, slot — each bound absent or a point of the abstract
// time line) on real decoded transactions of the era, validated with the era's
// own UtxoValidationRules list (common.VerifyTransaction for the verdict, then
// rule by rule for the attribution).  The expected verdict is the `accept`
// field computed by TLC; this file only maps abstract time points to concrete
// uint64 slots (order-isomorphic maps) and builds/signs the transactions.
package main

import (
	"encoding/hex"
	"encoding/json"
	"fmt"
	"math/rand"
	"os"
	"sort"
	"strconv"
	"strings"

	"github.com/blinklabs-io/gouroboros/ledger/common"

	"verifharness/vh"
)

type row struct {
	Era    string `json:"era"`
	Start  int    `json:"start"`
	End    int    `json:"end"`
	Slot   int    `json:"slot"`
	Accept bool   `json:"accept"`
	Why    string `json:"why"`
	Name   string `json:"name"`
	P2     bool   `json:"p2"` // is_valid = false (Alonzo, Babbage, Conway)
}

const maxU = ^uint64(0)

type tmap struct {
	name string
	v    []uint64 // abstract point i -> concrete slot, strictly increasing
}

// timeMaps returns the order-isomorphic maps 0..T -> uint64.  Maps whose name
// starts with "z" send abstract 0 to concrete 0 (zero is a special value of the
// Go API); "nz" sends every point to a non-zero value.
func timeMaps(T int, rng *rand.Rand) []tmap {
	n := T + 1
	low, high, mid, ext, rnd, nz := make([]uint64, n), make([]uint64, n), make([]uint64, n), make([]uint64, n), make([]uint64, n), make([]uint64, n)
	for i := 0; i < n; i++ {
		low[i] = uint64(i)
		high[i] = maxU - uint64(T-i)
		mid[i] = (uint64(1) << 63) - uint64(T/2) + uint64(i)
		ext[i] = (uint64(1) << 63) + uint64(i)
	}
	high[0], mid[0], ext[0] = 0, 0, 0
	mid[T] = maxU
	ext[1], ext[T] = 1, maxU
	if T >= 3 {
		ext[T-1] = maxU - 1
	}
	// seeded: distinct sorted values strictly between 0 and max, with one adjacent pair
	set := map[uint64]bool{}
	for len(set) < T-1 {
		x := rng.Uint64()
		if x > 0 && x < maxU-1 && !set[x] {
			set[x] = true
		}
	}
	var vals []uint64
	for x := range set {
		vals = append(vals, x)
	}
	sort.Slice(vals, func(i, j int) bool { return vals[i] < vals[j] })
	rnd[0] = 0
	copy(rnd[1:], vals)
	rnd[T] = vals[len(vals)-1] + 1
	base := uint64(rng.Int63n(1<<62)) + 1
	for i := 0; i < n; i++ {
		nz[i] = base + uint64(i)
	}
	return []tmap{{"zlow", low}, {"zhigh", high}, {"zmid", mid}, {"zext", ext}, {"zrnd", rnd}, {"nz", nz}}
}

func isValidityFailure(f RuleFailure) bool {
	return strings.Contains(f.Type, "ExpiredUtxo") || strings.Contains(f.Type, "OutsideValidityInterval") ||
		strings.Contains(f.Rule, "ValidityInterval") || strings.Contains(f.Rule, "TimeToLive")
}

func u64p(m tmap, a int) *uint64 {
	if a < 0 {
		return nil
	}
	v := m.v[a]
	return &v
}

func show(p *uint64) any {
	if p == nil {
		return nil
	}
	return strconv.FormatUint(*p, 10)
}

type replayCase struct {
	Era    string  `json:"era"`
	Start  *string `json:"start"`
	End    *string `json:"end"`
	Slot   string  `json:"slot"`
	Accept bool    `json:"spec_accept"`
	Key    string  `json:"key"`
	P2     bool    `json:"p2invalid"`
}

func parseP(s *string) *uint64 {
	if s == nil {
		return nil
	}
	v, err := strconv.ParseUint(*s, 10, 64)
	if err != nil {
		return nil
	}
	return &v
}

type runner struct {
	p2base map[string]map[string]bool // era -> rules that reject the flagged factory transaction at every slot
	rep    *vh.Reporter
	owner  Key
	txid   []byte
	cache  map[string]*Built
	seen   map[string]bool
}

func (r *runner) build(era string, start, end *uint64, p2 ...bool) *Built {
	flagged := len(p2) > 0 && p2[0]
	ck := fmt.Sprintf("%s/%v/%v/%v", era, show(start), show(end), flagged)
	if b, ok := r.cache[ck]; ok {
		return b
	}
	b, err := BuildTx(TxSpec{Era: era, Start: start, End: end, Owner: r.owner, Sign: []Key{r.owner}, TxID: r.txid, Phase2Invalid: flagged})
	if err != nil {
		r.rep.Dead("cannot build %s transaction start=%v end=%v: %v", era, show(start), show(end), err)
	}
	r.cache[ck] = b
	return b
}

// one executes a single concrete case; returns false when it disagreed.
func (r *runner) one(key, era string, start, end *uint64, slot uint64, specAccept bool, p2 ...bool) bool {
	flagged := len(p2) > 0 && p2[0]
	b := r.build(era, start, end, flagged)
	replay := map[string]any{
		"key": key, "era": era, "p2invalid": flagged, "start": show(start), "end": show(end), "slot": strconv.FormatUint(slot, 10),
		"spec_accept": specAccept, "tx_cbor": hex.EncodeToString(b.Bytes),
	}
	ok := true
	rp := func() any { // one replay file per (spec verdict class, zero bound) and run
		cls := fmt.Sprintf("%s/%v/%v/%v", key[strings.Index(key, ":why="):], specAccept, start != nil && *start == 0, end != nil && *end == 0)
		if r.seen[cls] {
			return nil
		}
		r.seen[cls] = true
		return replay
	}
	r.rep.Guard(key, replay, func() {
		verr := common.VerifyTransaction(b.Tx, slot, b.LS, b.PP, b.Rules)
		fails := RunRules(b, slot)
		if (verr == nil) != (len(fails) == 0) {
			r.rep.Dead("%s: VerifyTransaction (%v) and rule-by-rule run (%v) differ", key, verr, fails)
		}
		var other []RuleFailure
		nvalid := 0
		for _, f := range fails {
			switch {
			case isValidityFailure(f):
				nvalid++
			case flagged && r.p2base[era][f.Rule]:
				// the factory's flagged transaction has no redeemer; the rule that says so fails at
				// every slot (see baseline) and depends on nothing the interval rule reads
			default:
				other = append(other, f)
			}
		}
		if len(other) > 0 {
			// the transaction is valid apart from its interval (checked per era and
			// slot in baseline()); a rejection by an unrelated rule cannot be
			// attributed to the property
			r.rep.Dead("%s: rejected by rules unrelated to the validity interval: %+v", key, other)
		}
		codeAccept := verr == nil
		if flagged {
			// every rule but the baseline-failing one passes: a flagged transaction that also carries
			// its redeemer and collateral is accepted exactly when this one passes the remaining rules
			codeAccept = nvalid == 0
		}
		replay["code_accept"] = codeAccept
		replay["failed_rules"] = fails
		switch {
		case codeAccept && !specAccept:
			ok = false
			r.rep.Disagree(key, fmt.Sprintf("%s transaction (validity start %v, invalid-hereafter/ttl %v) accepted at slot %d by the whole %s rule list; the specification rejects it",
				era, show(start), show(end), slot, era), rp())
		case !codeAccept && specAccept:
			ok = false
			r.rep.Disagree("overreject:"+key, fmt.Sprintf("%s transaction (validity start %v, invalid-hereafter/ttl %v) rejected at slot %d (%s) although the slot is inside the interval",
				era, show(start), show(end), slot, fails[0].Err), rp())
		}
	})
	return ok
}

// baseline proves that the factory's transaction is valid apart from the
// interval, and that the rule list is live (an unsigned copy is rejected).
func (r *runner) baseline(slots map[uint64]bool) {
	for _, era := range Eras {
		b := r.build(era, nil, nil)
		if era == "shelley" {
			// ttl is mandatory in Shelley: baseline with the largest ttl
			m := maxU
			b = r.build(era, nil, &m)
		}
		for s := range slots {
			for _, f := range RunRules(b, s) {
				// the interval rules themselves are what is being checked: only the
				// other rules must be satisfied by the baseline
				if !isValidityFailure(f) {
					r.rep.Dead("baseline %s transaction not valid at slot %d: %+v", era, s, f)
				}
			}
		}
		if era == "alonzo" || era == "babbage" || era == "conway" {
			// is_valid = false: apart from the interval only "marked invalid but no redeemer" may fail
			fb := r.build(era, nil, nil, true)
			if fb.Tx.IsValid() {
				r.rep.Dead("flagged %s transaction decodes with IsValid() = true", era)
			}
			r.p2base[era] = map[string]bool{}
			for s := range slots {
				for _, f := range RunRules(fb, s) {
					if isValidityFailure(f) {
						continue
					}
					if !strings.Contains(f.Rule, "IsValidFlag") {
						r.rep.Dead("baseline flagged %s transaction rejected at slot %d by %+v", era, s, f)
					}
					r.p2base[era][f.Rule] = true
				}
			}
		}
		un, err := BuildTx(TxSpec{Era: era, Owner: r.owner, TxID: r.txid})
		if err != nil {
			r.rep.Dead("unsigned baseline: %v", err)
		}
		if f := RunRules(un, 1); len(f) == 0 {
			r.rep.Dead("negative control: unsigned %s transaction passes the whole rule list", era)
		}
	}
}

func main() {
	rep := vh.NewReporter()
	rng := rand.New(rand.NewSource(vh.Seed()))
	r := &runner{rep: rep, owner: NewKey(rng), txid: make([]byte, 32), cache: map[string]*Built{}, seen: map[string]bool{}, p2base: map[string]map[string]bool{}}
	rng.Read(r.txid)

	if len(os.Args) >= 2 && os.Args[1] == "probe-invalid" {
		for _, era := range []string{"alonzo", "babbage", "conway", "dijkstra"} {
			b, err := BuildTx(TxSpec{Era: era, Owner: r.owner, Sign: []Key{r.owner}, TxID: r.txid, Phase2Invalid: true})
			if err != nil {
				fmt.Println(era, "build:", err)
				continue
			}
			fmt.Println(era, "isValid:", b.Tx.IsValid())
			for _, f := range RunRules(b, 5) {
				fmt.Printf("  %+v\n", f)
			}
		}
		return
	}
	if len(os.Args) >= 3 && os.Args[1] == "--replay" {
		raw, err := os.ReadFile(os.Args[2])
		if err != nil {
			rep.Dead("replay: %v", err)
		}
		var rc replayCase
		if err := json.Unmarshal(raw, &rc); err != nil {
			rep.Dead("replay: %v", err)
		}
		slot, err := strconv.ParseUint(rc.Slot, 10, 64)
		if err != nil {
			rep.Dead("replay slot: %v", err)
		}
		rep.Case(rc.Key, true)
		r.one(strings.TrimPrefix(rc.Key, "overreject:"), rc.Era, parseP(rc.Start), parseP(rc.End), slot, rc.Accept, rc.P2)
		rep.Finish()
		return
	}

	// usage: c26 <map name|all> <cases.ndjson>   (the orchestrator calls it once per
	// era and map so that one run never exceeds the reporter's disagreement cap)
	if len(os.Args) < 3 {
		rep.Dead("usage: c26 <map|all> <cases.ndjson> [T] | --replay <file>")
	}
	only := os.Args[1]
	rows, err := vh.ReadNDJSON[row](os.Args[2])
	if err != nil || len(rows) == 0 {
		rep.Dead("cases: %v (%d rows)", err, len(rows))
	}
	// T: the top of the abstract time line (given by the orchestrator when the
	// case file is only a chunk of the grid)
	T := 0
	for _, c := range rows {
		for _, x := range []int{c.Slot, c.Start, c.End} {
			if x > T {
				T = x
			}
		}
	}
	if len(os.Args) >= 4 {
		t, err := strconv.Atoi(os.Args[3])
		if err != nil || t < T {
			rep.Dead("bad T %q (cases reach %d)", os.Args[3], T)
		}
		T = t
	}
	maps := timeMaps(T, rng)
	if only != "all" {
		var sel []tmap
		for _, m := range maps {
			if m.name == only {
				sel = append(sel, m)
			}
		}
		if len(sel) != 1 {
			rep.Dead("unknown map %q", only)
		}
		maps = sel
	}
	slots := map[uint64]bool{}
	for _, m := range maps {
		for i := 1; i <= T; i++ {
			if m.v[i] <= m.v[i-1] {
				rep.Dead("map %s is not strictly increasing: %v", m.name, m.v)
			}
		}
		for _, v := range m.v {
			slots[v] = true
		}
	}
	r.baseline(slots)

	byWhy := map[string]int{}
	inList := map[string][]string{}
	for _, era := range Eras {
		b := r.build(era, nil, nil)
		for _, rule := range b.Rules {
			n := RuleName(rule)
			if strings.Contains(n, "ValidityInterval") || strings.Contains(n, "TimeToLive") {
				inList[era] = append(inList[era], n)
			}
		}
	}
	sampled := map[string]bool{}
	for _, m := range maps {
		for _, c := range rows {
			key := c.Name + ":map=" + m.name
			start, end := u64p(m, c.Start), u64p(m, c.End)
			rep.Case(key, true)
			byWhy[c.Why]++
			r.one(key, c.Era, start, end, m.v[c.Slot], c.Accept, c.P2)
			if sk := c.Era + c.Why; m.name == "zext" && !sampled[c.Why] && !sampled[sk] && c.Start >= 0 && c.End > 0 {
				sampled[c.Why], sampled[sk] = true, true
				rep.Sample(map[string]any{"key": key, "start": show(start), "end": show(end),
					"slot": strconv.FormatUint(m.v[c.Slot], 10), "spec_accept": c.Accept})
			}
		}
	}
	mdesc := map[string][]string{}
	for _, m := range maps {
		for _, v := range m.v {
			mdesc[m.name] = append(mdesc[m.name], strconv.FormatUint(v, 10))
		}
	}
	rep.Extra["c26_time_maps"] = mdesc
	rep.Extra["c26_cases_by_spec_reason"] = byWhy
	rep.Extra["c26_validity_rules_in_era_list"] = inList
	rep.Extra["c26_note"] = "verdict = common.VerifyTransaction over the era's whole UtxoValidationRules list on a decoded, signed transaction; " +
		"a rejection inside the interval is reported under an overreject: key (the transaction is baseline-valid, so only the interval can explain it)"
	rep.Finish()
}
