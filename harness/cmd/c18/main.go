// Command c18 replays the runs of spec/net/Handshake.tla (honest responder) on
// the real handshake: handshake.Client against handshake.Server over real
// muxers on a net.Pipe with version tables cut out of the library's
// node-to-node, node-to-client and DMQ tables, and whole ouroboros.Connection
// pairs with the full tables.  The expected result of both endpoints is the
// row's; this driver only maps abstract versions / magics / flags to concrete
// ones and compares.
//
//	c18 rows.ndjson...            replay the rows of the given files
//	c18 -replay replay.json       re-run one recorded case
package main

import (
	"encoding/json"
	"fmt"
	"net"
	"os"
	"runtime"
	"sort"
	"strings"
	"sync"
	"time"

	"github.com/blinklabs-io/gouroboros/protocol"

	"verifharness/hs"
	"verifharness/vh"
)

const (
	deadline = 40 * time.Second // an endpoint that has not reacted by then is not load, it is stuck
	grace    = 6 * time.Second  // without the verif hooks: how long a written-nothing responder is given
)

type job struct {
	Row     *hs.Row `json:"row"`
	Idx     int     `json:"idx"`     // index of the row in its file (seeds the concretisation)
	File    string  `json:"file"`    // config the row came from
	Binding string  `json:"binding"` // "hs" | "conn"
	Table   string  `json:"table"`
}

type concrete struct {
	Table    string            `json:"table"`
	Versions map[string]uint16 `json:"versions"` // abstract -> concrete
	Magics   [3]uint32         `json:"magics"`   // abstract 1, 2 -> concrete
	Flags    [5]bool           `json:"flags"`    // cd cp sd sp sq
}

type replay struct {
	Job      job      `json:"job"`
	Concrete concrete `json:"concrete"`
	Seed     int64    `json:"verif_seed"`
	Client   string   `json:"client_observed"`
	Server   string   `json:"server_observed"`
	Expected string   `json:"expected"`
}

var (
	rep    *vh.Reporter
	tables map[string]*hs.Table
	seed   int64

	limit        = hs.NewLimiter(25)
	statMu       sync.Mutex
	stats        = map[string]int{}
	lostExamples []string
)

func stat(k string) {
	statMu.Lock()
	stats[k]++
	statMu.Unlock()
}

func flagsOf(j *job) [5]bool {
	var f [5]bool
	if j.Row.FlModel {
		copy(f[:], j.Row.Fl)
		return f
	}
	x := hs.Mix(seed, "flags", j.File, j.Idx, j.Table, j.Binding)
	for i := range f {
		f[i] = x>>(uint(i)*3)&1 == 1
	}
	return f
}

func expectedString(r *hs.Row) string {
	return fmt.Sprintf("reply %s; initiator %s v=%d vs=%v tab=%v; responder %s v=%d",
		r.ReplyKey(), r.Cres.Kind, r.Cres.V, r.Cres.Vs, hs.Dom(r.Cres.Tab), r.Sres.Kind, r.Sres.V)
}

type problem struct{ class, desc string }

func u16s(xs []uint16) string { return fmt.Sprint(xs) }

// compareOutcomes checks the observed outcomes against the row.  ver maps an
// abstract version to the concrete one, cliEntry/srvEntry give the version data
// each side was configured with.
func compareOutcomes(r *hs.Row, co, so hs.Outcome, ver func(int) uint16,
	cliEntry, srvEntry func(uint16) protocol.VersionData, srvVersions []uint16) []problem {
	var ps []problem
	bad := func(class, f string, a ...any) { ps = append(ps, problem{class, fmt.Sprintf(f, a...)}) }
	switch r.Cres.Kind {
	case "ok":
		want := ver(r.Cres.V)
		switch {
		case co.Kind != "ok":
			bad("client-outcome:want=ok", "initiator should finish with version %d, it reported: %s", want, co)
		case co.Version != want:
			bad("client-version", "initiator finished with version %d, the best common version with matching magic is %d", co.Version, want)
		case !hs.SameData(co.Data, srvEntry(want)):
			bad("client-data", "initiator got %s, the responder's data of version %d is %s", hs.DataString(co.Data), want, hs.DataString(srvEntry(want)))
		}
	case "mismatch":
		want := make([]uint16, len(r.Cres.Vs))
		for i, v := range r.Cres.Vs {
			want[i] = ver(v)
		}
		switch {
		case co.Kind != "mismatch":
			bad("client-outcome:want=mismatch", "initiator should report a version-mismatch refusal listing %v, it reported: %s", want, co)
		case u16s(co.Versions) != u16s(want):
			got := append([]uint16(nil), co.Versions...)
			sort.Slice(got, func(i, j int) bool { return got[i] < got[j] })
			if u16s(got) == u16s(want) {
				bad("refusal-order", "version-mismatch refusal lists %v: not ascending", co.Versions)
			} else {
				bad("refusal-list", "version-mismatch refusal lists %v, the responder's versions are %v", co.Versions, want)
			}
		}
	case "refused":
		want := ver(r.Cres.V)
		switch {
		case co.Kind != "refused":
			bad("client-outcome:want=refused", "initiator should report Refuse(Refused, %d), it reported: %s", want, co)
		case co.Version != want:
			bad("refusal-version", "refusal names version %d, the best common version is %d", co.Version, want)
		}
	case "query":
		switch {
		case co.Kind != "query":
			bad("client-outcome:want=query", "initiator should receive the responder's version table %v, it reported: %s", srvVersions, co)
		case co.Version != 0 || co.Data != nil:
			bad("query-selects", "a query handshake selected version %d (%s)", co.Version, hs.DataString(co.Data))
		case u16s(hs.TableVersions(co.QueryTable)) != u16s(srvVersions):
			bad("query-table", "query reply lists %v, the responder's table is %v", hs.TableVersions(co.QueryTable), srvVersions)
		default:
			for _, v := range srvVersions {
				if !hs.SameData(co.QueryTable[v], srvEntry(v)) {
					bad("query-table", "query reply has %s for version %d, the responder's table has %s", hs.DataString(co.QueryTable[v]), v, hs.DataString(srvEntry(v)))
					break
				}
			}
		}
	default:
		bad("row", "unexpected expected-kind %q", r.Cres.Kind)
	}
	switch r.Sres.Kind {
	case "ok":
		want := ver(r.Sres.V)
		switch {
		case so.Kind != "ok":
			bad("server-outcome", "responder should finish with version %d, it reported: %s", want, so)
		case so.Version != want:
			bad("server-version", "responder finished with version %d, the best common version with matching magic is %d", so.Version, want)
		case !hs.SameData(so.Data, cliEntry(want)):
			bad("server-data", "responder got %s, the initiator's data of version %d is %s", hs.DataString(so.Data), want, hs.DataString(cliEntry(want)))
		}
	default:
		if so.Kind == "ok" {
			bad("server-outcome", "responder should not select a version, it finished with version %d", so.Version)
		}
	}
	return ps
}

// ---------------------------------------------------------------------------
// handshake.Client against handshake.Server

// concretise returns nil if the table cannot represent the row.
func concretise(j *job, t *hs.Table) (*concrete, map[int]uint16) {
	r := j.Row
	usedSet := map[int]bool{}
	constrained := map[int]bool{}
	for _, v := range hs.Dom(r.Cli) {
		usedSet[v] = true
		constrained[v] = true // the initiator's data formats decide whether its query flag travels
	}
	for _, v := range hs.Dom(r.Srv) {
		usedSet[v] = true
	}
	var used []int
	for v := range usedSet {
		used = append(used, v)
	}
	sort.Ints(used)
	pick := hs.Mix(seed, "versions", j.File, j.Idx, t.Name)
	vm := t.Concrete(used, constrained, r.K, pick)
	if vm == nil {
		return nil, nil
	}
	c := &concrete{Table: t.Name, Versions: map[string]uint16{}, Flags: flagsOf(j),
		Magics: hs.Magics(hs.Mix(seed, "magics", j.File, j.Idx, t.Name), false)}
	for a, v := range vm {
		c.Versions[fmt.Sprint(a)] = v
	}
	return c, vm
}

type pairResult struct {
	co, so hs.Outcome
	lost   bool
	dead   string
}

func runPair(t *hs.Table, cm, sm protocol.ProtocolVersionMap, wantLostDetail bool) (res pairResult) {
	a, b := net.Pipe()
	s := hs.StartServer(b, t.Mode, sm)
	c := hs.StartClient(a, t.Mode, cm)
	defer func() {
		c.Stop()
		s.Stop()
	}()
	res.so = s.Await(deadline)
	if res.so.Kind == "hang" {
		res.dead = "the responder did not react to the proposal: " + res.so.Err
		return
	}
	if res.so.Kind == "ok" {
		res.co = c.Await(deadline)
		if res.co.Kind == "hang" {
			res.dead = "the responder accepted but the initiator did not finish: " + res.co.Err
		}
		return
	}
	// the responder ended without selecting a version: its reply, if any, is on its way
	select {
	case <-s.ProtocolDone():
	case <-time.After(deadline):
		res.dead = "the responder's protocol did not shut down after its error"
		return
	}
	if s.NeverSent() {
		res.lost = true
		res.co = hs.Outcome{Kind: "hang", Err: "the responder's send loop exited without handing any segment to the muxer"}
		if wantLostDetail {
			o := c.Await(15 * time.Second)
			statMu.Lock()
			lostExamples = append(lostExamples, fmt.Sprintf("%s: responder reported %q and sent nothing; initiator after 15 s: %s", t.Name, res.so.Err, o))
			statMu.Unlock()
		}
		return
	}
	res.co = c.Await(grace)
	if res.co.Kind == "hang" {
		if s.Segments() == 0 {
			res.lost = true
			res.co.Err = fmt.Sprintf("the responder wrote no segment within %s of shutting its protocol down", grace)
			return
		}
		res.co = c.Await(deadline)
		if res.co.Kind == "hang" {
			res.dead = "the responder wrote its reply but the initiator did not react: " + res.co.Err
		}
	}
	return
}

var lostDetailBudget = map[string]int{}

func takeLostDetail(table string) bool {
	statMu.Lock()
	defer statMu.Unlock()
	if lostDetailBudget[table] >= 1 {
		return false
	}
	lostDetailBudget[table]++
	return true
}

func runHs(j *job, final bool) (dead string) {
	t := tables[j.Table]
	c, vm := concretise(j, t)
	if c == nil {
		return ""
	}
	r := j.Row
	fl := c.Flags
	cm, sm := protocol.ProtocolVersionMap{}, protocol.ProtocolVersionMap{}
	for _, a := range hs.Dom(r.Cli) {
		cm[vm[a]] = t.Entry(vm[a], c.Magics[r.Cli[a-1]], fl[0], fl[1], r.Qf)
	}
	for _, a := range hs.Dom(r.Srv) {
		sm[vm[a]] = t.Entry(vm[a], c.Magics[r.Srv[a-1]], fl[2], fl[3], fl[4])
	}
	for v, d := range cm {
		if d == nil {
			rep.Dead("library generated no data for %s version %d", t.Name, v)
		}
	}
	key := fmt.Sprintf("hs:%s:%s", t.Name, r.CaseKey())
	var res pairResult
	rp := &replay{Job: *j, Concrete: *c, Seed: seed, Expected: expectedString(r)}
	rep.Guard(key, rp, func() {
		res = runPair(t, cm, sm, r.Sres.Kind != "ok" && takeLostDetailIfLikely(t.Name))
	})
	if res.dead != "" {
		return res.dead
	}
	rp.Client, rp.Server = res.co.String(), res.so.String()
	report(j, key, rp, res, func(a int) uint16 { return vm[a] },
		func(v uint16) protocol.VersionData { return cm[v] },
		func(v uint16) protocol.VersionData { return sm[v] }, hs.TableVersions(sm))
	return ""
}

// the first refusal / query case of every table also records what the initiator
// ends up with if the reply never arrives (costs 15 s once per table)
func takeLostDetailIfLikely(table string) bool { return takeLostDetail(table) }

func report(j *job, key string, rp *replay, res pairResult, ver func(int) uint16,
	cliEntry, srvEntry func(uint16) protocol.VersionData, srvVersions []uint16) {
	r := j.Row
	nontrivial := len(hs.Dom(r.Cli)) > 0 || len(hs.Dom(r.Srv)) > 0
	rep.Case(key, nontrivial)
	stat(j.Binding + ":" + j.Table + ":" + r.Cres.Kind)
	if res.lost {
		stat("lost-reply:" + j.Binding + ":" + j.Table)
		what := r.Reply.T
		if what == "refuse" {
			what = "refuse-" + r.Reply.Reason
		}
		if !limit.Take("lost-reply:" + what + ":" + j.Binding + ":" + j.Table) {
			return
		}
		rep.Disagree("lost-reply:"+what+":"+key,
			fmt.Sprintf("the responder decided %s and ended (%s) but its reply never went onto the wire: %s; the initiator cannot report it",
				r.ReplyKey(), res.so.Err, res.co.Err), rp)
		return
	}
	for _, p := range compareOutcomes(r, res.co, res.so, ver, cliEntry, srvEntry, srvVersions) {
		if limit.Take(p.class + ":" + j.Binding + ":" + j.Table) {
			rep.Disagree(p.class+":"+key, p.desc, rp)
		}
	}
	rep.Sample(fmt.Sprintf("%s: initiator %s | responder %s", key, res.co, res.so))
}

// ---------------------------------------------------------------------------
// whole connections with the library's full tables

func connEligible(r *hs.Row) []string {
	w := len(r.Cli)
	if len(hs.Dom(r.Cli)) != w || len(hs.Dom(r.Srv)) != w {
		return nil
	}
	for i := 1; i < w; i++ {
		if r.Cli[i] != r.Cli[0] || r.Srv[i] != r.Srv[0] {
			return nil
		}
	}
	// the window stands for the whole table (monotone, onto): the threshold must fall where the table's does
	switch {
	case r.K == 0:
		return []string{"ntn", "ntc", "dmqntc"}
	case r.K == 1:
		return []string{"dmqntc"}
	case r.K <= w:
		return []string{"ntn", "ntc"}
	}
	return nil
}

func runConn(j *job, final bool) (dead string) {
	t := tables[j.Table]
	r := j.Row
	fl := flagsOf(j)
	mg := hs.Magics(hs.Mix(seed, "magics", j.File, j.Idx, t.Name, "conn"), true)
	top := t.Versions[len(t.Versions)-1]
	w := len(r.Cli)
	ver := func(a int) uint16 {
		if a == w {
			return top
		}
		// lower abstract versions are never selected between two full tables; map them to the bottom
		return t.Versions[0]
	}
	co := hs.ConnOpts{Magic: mg[r.Cli[0]], NtN: t.Name == "ntn", DMQ: t.Name == "dmqntc", FullDuplex: !fl[0], PeerSharing: fl[1], Query: r.Qf}
	so := hs.ConnOpts{Magic: mg[r.Srv[0]], NtN: t.Name == "ntn", DMQ: t.Name == "dmqntc", FullDuplex: !fl[2], PeerSharing: fl[3], Query: fl[4]}
	c := &concrete{Table: t.Name, Versions: map[string]uint16{fmt.Sprint(w): top}, Magics: mg, Flags: fl}
	key := fmt.Sprintf("conn:%s:%s", t.Name, r.CaseKey())
	rp := &replay{Job: *j, Concrete: *c, Seed: seed, Expected: expectedString(r)}
	var res pairResult
	rep.Guard(key, rp, func() {
		a, b := net.Pipe()
		sb := &hs.CountConn{Conn: b}
		ch := make(chan hs.ConnResult, 1)
		go func() { ch <- hs.NewConn(sb, true, so, deadline) }()
		cr := hs.NewConn(a, false, co, deadline)
		sr := <-ch
		res.co, res.so = cr.Outcome, sr.Outcome
		if sr.Outcome.Kind != "ok" && sr.Outcome.Kind != "hang" && sb.Writes() == 0 {
			res.lost = true
			res.co.Err = "the responder's connection wrote nothing before it was closed; initiator saw: " + cr.Outcome.String()
		}
		cr.Close()
		sr.Close()
		_ = a.Close()
		_ = b.Close()
	})
	if res.so.Kind == "hang" || res.co.Kind == "hang" {
		return fmt.Sprintf("NewConnection did not return: initiator %s, responder %s", res.co, res.so)
	}
	rp.Client, rp.Server = res.co.String(), res.so.String()
	// the full tables as the library generates them for these options
	cliD, srvD := !co.FullDuplex, !so.FullDuplex
	report(j, key, rp, res, ver,
		func(v uint16) protocol.VersionData { return t.Entry(v, co.Magic, cliD, co.PeerSharing, co.Query) },
		func(v uint16) protocol.VersionData { return t.Entry(v, so.Magic, srvD, so.PeerSharing, so.Query) },
		t.Versions)
	return ""
}

// ---------------------------------------------------------------------------

func run(j *job, final bool) string {
	if j.Binding == "conn" {
		return runConn(j, final)
	}
	return runHs(j, final)
}

func main() {
	rep = vh.NewReporter()
	seed = vh.Seed()
	ts, bad := hs.Tables()
	if bad != "" {
		rep.Dead("%s", bad)
	}
	tables = map[string]*hs.Table{}
	for _, t := range ts {
		tables[t.Name] = t
	}
	args := os.Args[1:]
	var jobs []*job
	if len(args) == 2 && args[0] == "-replay" {
		b, err := os.ReadFile(args[1])
		if err != nil {
			rep.Dead("%v", err)
		}
		var rp replay
		if err := json.Unmarshal(b, &rp); err != nil {
			rep.Dead("replay file: %v", err)
		}
		seed = rp.Seed
		j := rp.Job
		jobs = append(jobs, &j)
	} else {
		thorough := vh.Tier() == "thorough"
		for _, f := range args {
			rows, err := vh.ReadNDJSON[hs.Row](f)
			if err != nil {
				rep.Dead("%v", err)
			}
			if len(rows) == 0 {
				rep.Dead("%s holds no rows", f)
			}
			name := strings.TrimSuffix(f[strings.LastIndex(f, "/")+1:], ".ndjson")
			for i := range rows {
				r := &rows[i]
				if r.Mode != "honest" {
					rep.Dead("%s row %d is not an honest-responder run", f, i)
				}
				// handshake level: both Cardano tables in the thorough tier, one (seeded) in the quick
				// tier; the DMQ tables whenever they can represent the case
				cardano := []string{"ntn", "ntc"}
				if !thorough {
					cardano = cardano[hs.Mix(seed, "table", name, i)%2:][:1]
				}
				for _, tn := range append(cardano, "dmqntn", "dmqntc") {
					jobs = append(jobs, &job{Row: r, Idx: i, File: name, Binding: "hs", Table: tn})
				}
				for _, tn := range connEligible(r) {
					jobs = append(jobs, &job{Row: r, Idx: i, File: name, Binding: "conn", Table: tn})
				}
			}
		}
	}
	workers := 4 * runtime.GOMAXPROCS(0)
	if workers > 48 {
		workers = 48
	}
	var wg sync.WaitGroup
	ch := make(chan *job, 1024)
	var deadMu sync.Mutex
	var retry []*job
	deadWhy := map[*job]string{}
	for w := 0; w < workers; w++ {
		wg.Add(1)
		go func() {
			defer wg.Done()
			for j := range ch {
				if why := run(j, false); why != "" {
					deadMu.Lock()
					retry = append(retry, j)
					deadWhy[j] = why
					deadMu.Unlock()
				}
			}
		}()
	}
	for _, j := range jobs {
		ch <- j
	}
	close(ch)
	wg.Wait()
	// an endpoint that did not react within the deadline under load gets a second, undisturbed chance
	for _, j := range retry {
		if why := run(j, true); why != "" {
			rep.Dead("%s/%s %s twice: %s (first: %s)", j.Binding, j.Table, j.Row.CaseKey(), why, deadWhy[j])
		}
	}
	rep.Extra["outcomes_by_binding_table_kind"] = stats
	rep.Extra["retried_after_deadline"] = len(retry)
	if len(limit.Counts) > 0 {
		rep.Extra["disagreements_by_class_binding_table"] = limit.Counts
		rep.Extra["disagreements_reported_per_class_at_most"] = limit.Max
	}
	rep.Extra["lost_reply_detection"] = map[bool]string{true: "verif hooks (send loop exited without SegOut)", false: "grace period + zero segments written"}[hs.TraceAvailable]
	if len(lostExamples) > 0 {
		rep.Extra["lost_reply_examples"] = lostExamples
	}
	rep.Finish()
}
