// Command c19 replays the runs of spec/net/Handshake.tla with the adversarial
// responder on the real initiator: a scripted raw peer on the other end of a
// net.Pipe reads the ProposeVersions segment and answers with the row's reply,
// hand-built in muxer framing, against handshake.Client (version tables cut
// out of the library's tables) and against ouroboros.NewConnection (full
// tables).  Whether the initiator may finish, and with what, is the row's
// verdict; this driver only builds the bytes and compares.
//
// "Proposed" is what the ProposeVersions segment read off the wire holds.  The
// rows in which the initiator sent its whole table are executed; after each
// run the real proposal is mapped back into the window and the run is judged
// by the row of the specification with that sent set (the rows with a proper
// subset are reached only by code that does not send its whole table).
// Whether the proposal must be the configured table is C18's subject: a
// difference is recorded, not judged.
//
//	c19 rows.ndjson...            replay the rows of the given files
//	c19 -replay replay.json       re-run one recorded case
package main

import (
	"encoding/hex"
	"encoding/json"
	"fmt"
	"net"
	"os"
	"runtime"
	"sort"
	"strings"
	"sync"
	"time"

	"github.com/blinklabs-io/gouroboros/protocol"

	"verifharness/hs"
	"verifharness/vh"
)

const deadline = 40 * time.Second

type job struct {
	Row     *hs.Row `json:"row"`
	Idx     int     `json:"idx"`
	File    string  `json:"file"`
	Binding string  `json:"binding"` // "hs" | "conn"
	Table   string  `json:"table"`
	// the runs of the specification with the same configuration and reply, by sent set (hs.SentKey)
	BySent map[string]*hs.Row `json:"rows_by_sent,omitempty"`
}

type concrete struct {
	Table    string            `json:"table"`
	Versions map[string]uint16 `json:"versions"`
	Magics   [3]uint32         `json:"magics"`
	Flags    [2]bool           `json:"flags"` // initiator's diffusion, peer sharing
	Proposed []uint16          `json:"proposed"` // the configured table
	ReplyHex string            `json:"reply_hex"`
}

type replay struct {
	Job      job      `json:"job"`
	Concrete concrete `json:"concrete"`
	Seed     int64    `json:"verif_seed"`
	Wire     []uint16 `json:"wire_proposal"` // the versions in the ProposeVersions segment the initiator really sent
	Sent     string   `json:"sent_abstract"` // ... mapped back into the window: the row with this sent set judges
	Observed string   `json:"initiator_observed"`
	Expected string   `json:"expected"`
}

var (
	rep     *vh.Reporter
	tables  map[string]*hs.Table
	unknown []uint16
	seed    int64
	// index of all rows: configuration + reply -> sent set -> row
	bySent = map[string]map[string]*hs.Row{}

	limit  = hs.NewLimiter(25)
	statMu sync.Mutex
	stats  = map[string]int{}
	notes  = map[string]string{}
)

func stat(k string) {
	statMu.Lock()
	stats[k]++
	statMu.Unlock()
}

func note(k, v string) {
	statMu.Lock()
	if _, ok := notes[k]; !ok {
		notes[k] = v
	}
	statMu.Unlock()
}

type item struct {
	name  string
	bytes []byte
}

// well-formed CBOR items that are version data of no format
var junkItems = []item{
	{"text", hs.Text("junk")},
	{"emptyarray", hs.Array()},
	{"array1", hs.Array(hs.Bool(true))},
	{"negint", []byte{0x20}},
	{"emptymap", []byte{0xa0}},
	{"textbool", hs.Array(hs.Text("x"), hs.Bool(false))},
	{"textbooluintbool", hs.Array(hs.Text("x"), hs.Bool(false), hs.Uint(0), hs.Bool(false))},
	{"null", []byte{0xf6}},
	{"undefined", []byte{0xf7}},
	{"uint64", hs.Uint(1 << 32)},
	{"array-uint64-bool", hs.Array(hs.Uint(1<<32), hs.Bool(false))},
	{"array-uint64-bool-uint-bool", hs.Array(hs.Uint(1<<32), hs.Bool(false), hs.Uint(0), hs.Bool(false))},
}

// bytes that can never become a CBOR item, however many more bytes follow
var badItems = []item{{"break", []byte{0xff}}, {"reserved28", []byte{0x1c}}, {"uint-indefinite", []byte{0x1f}}, {"simple28", []byte{0xfc}}}

// scenario is one concretised run.
type scenario struct {
	t        *hs.Table
	c        *concrete
	cm       protocol.ProtocolVersionMap // handshake binding: the initiator's table
	reply    []byte
	wantVer  uint16 // accept: the version in the message
	wantMag  uint32 // accept: the magic in the message data
	refVs    []uint16
	refVer   uint16
	queryVs  []uint16
	conn     hs.ConnOpts
	repr     map[int]uint16
	item     string // which junk / bad item stands for the data
	cfgMagic map[uint16]uint32 // the configured table: version -> magic
}

// indexKey names configuration and reply within a window size (version W+1 of a 3-window is not version 4 of a 4-window).
func indexKey(r *hs.Row) string { return fmt.Sprintf("W=%d|%s|%s", len(r.Cli), r.ConfigKey(), r.ReplyKey()) }

// sentOf maps the proposal read off the wire back into the window: the
// abstract versions of the configured table whose concrete version was sent.
// It also says how the proposal differs from the configured table.
func (sc *scenario) sentOf(r *hs.Row, p *hs.Proposal) (sent []int, missing, extra, otherMagic []uint16) {
	for _, a := range hs.Dom(r.Cli) {
		if p.Has(sc.repr[a]) {
			sent = append(sent, a)
		}
	}
	for _, v := range sc.c.Proposed {
		if !p.Has(v) {
			missing = append(missing, v)
		} else if m, ok := p.Magic(v); !ok || m != sc.cfgMagic[v] {
			otherMagic = append(otherMagic, v)
		}
	}
	for _, v := range p.Versions {
		if _, ok := sc.cfgMagic[v]; !ok {
			extra = append(extra, v)
		}
	}
	return
}

func has(vs []uint16, v uint16) bool {
	for _, x := range vs {
		if x == v {
			return true
		}
	}
	return false
}

func expectedString(r *hs.Row) string {
	return fmt.Sprintf("reply %s (must not be taken because: %v); initiator %s v=%d", r.ReplyKey(), r.Why, r.Cres.Kind, r.Cres.V)
}

// buildReply fills sc.reply from the row's reply, with ver mapping the window's versions.
func buildReply(j *job, sc *scenario, ver func(int) (uint16, bool)) bool {
	r := j.Row
	w := len(r.Cli)
	t := sc.t
	pick := hs.Mix(seed, "reply", j.File, j.Idx, j.Table, j.Binding)
	special := func(a int) (uint16, bool) {
		switch {
		case a == w+1:
			return unknown[pick%uint64(len(unknown))], true
		case a == w+2:
			return t.Foreign[(pick>>4)%uint64(len(t.Foreign))], true
		}
		return ver(a)
	}
	d, q := pick>>8&1 == 1, pick>>9&1 == 1
	ps := pick >> 10 & 1
	format := func(f string, magic uint32) []byte {
		switch f {
		case "A":
			return t.FormatA(magic, d, ps, q)
		case "B":
			return t.FormatB(magic, d, ps, q)
		case "X":
			return t.FormatX(magic, d, ps, q)
		case "junk":
			it := junkItems[(pick>>12)%uint64(len(junkItems))]
			sc.item = ":junk=" + it.name
			return it.bytes
		case "bad":
			it := badItems[(pick>>12)%uint64(len(badItems))]
			sc.item = ":bad=" + it.name
			return it.bytes
		}
		rep.Dead("row with data format %q", f)
		return nil
	}
	switch r.Reply.T {
	case "accept":
		v, ok := special(r.Reply.V)
		if !ok {
			return false
		}
		sc.wantVer, sc.wantMag = v, sc.c.Magics[r.Reply.Magic]
		sc.reply = hs.MsgAccept(v, format(r.Reply.Format, sc.wantMag))
	case "refuse":
		switch r.Reply.Reason {
		case "mismatch":
			for _, a := range r.Reply.Vs {
				v, ok := ver(a)
				if !ok {
					return false
				}
				sc.refVs = append(sc.refVs, v)
			}
			sc.reply = hs.MsgRefuseMismatch(sc.refVs)
		case "refused", "decodeerror":
			v, ok := special(r.Reply.V)
			if !ok {
				return false
			}
			sc.refVer = v
			if r.Reply.Reason == "refused" {
				sc.reply = hs.MsgRefuseRefused(v, "refused by the scripted responder")
			} else {
				sc.reply = hs.MsgRefuseDecodeError(v, "decode error says the scripted responder")
			}
		default:
			rep.Dead("row with refusal reason %q", r.Reply.Reason)
		}
	case "queryreply":
		tab := map[uint16][]byte{}
		for _, a := range hs.Dom(r.Reply.Tab) {
			v, ok := ver(a)
			if !ok {
				return false
			}
			f := "A"
			if a >= r.K {
				f = "B"
			}
			tab[v] = format(f, sc.c.Magics[r.Reply.Tab[a-1]])
			sc.queryVs = append(sc.queryVs, v)
		}
		sort.Slice(sc.queryVs, func(i, k int) bool { return sc.queryVs[i] < sc.queryVs[k] })
		sc.reply = hs.MsgQueryReply(tab)
	default:
		rep.Dead("row with reply %q", r.Reply.T)
	}
	sc.c.ReplyHex = hex.EncodeToString(sc.reply)
	return true
}

func windowVersionsOfReply(r *hs.Row) []int {
	w := len(r.Cli)
	var out []int
	if r.Reply.V >= 1 && r.Reply.V <= w {
		out = append(out, r.Reply.V)
	}
	out = append(out, r.Reply.Vs...)
	out = append(out, hs.Dom(r.Reply.Tab)...)
	return out
}

// handshake binding: the versions the run mentions are mapped monotonically into the table
func scenarioHs(j *job) *scenario {
	r := j.Row
	t := tables[j.Table]
	usedSet := map[int]bool{}
	for _, a := range hs.Dom(r.Cli) {
		usedSet[a] = true
	}
	for _, a := range windowVersionsOfReply(r) {
		usedSet[a] = true
	}
	var used []int
	constrained := map[int]bool{}
	for a := range usedSet {
		used = append(used, a)
		constrained[a] = true // formats matter for every version the run mentions
	}
	sort.Ints(used)
	vm := t.Concrete(used, constrained, r.K, hs.Mix(seed, "versions", j.File, j.Idx, t.Name))
	if vm == nil {
		return nil
	}
	fx := hs.Mix(seed, "flags", j.File, j.Idx, t.Name)
	sc := &scenario{t: t, repr: vm, c: &concrete{Table: t.Name, Versions: map[string]uint16{},
		Magics: hs.Magics(hs.Mix(seed, "magics", j.File, j.Idx, t.Name), false),
		Flags:  [2]bool{fx&1 == 1, fx&2 == 2}}}
	for a, v := range vm {
		sc.c.Versions[fmt.Sprint(a)] = v
	}
	sc.cm = protocol.ProtocolVersionMap{}
	sc.cfgMagic = map[uint16]uint32{}
	for _, a := range hs.Dom(r.Cli) {
		sc.cfgMagic[vm[a]] = sc.c.Magics[r.Cli[a-1]]
		sc.cm[vm[a]] = t.Entry(vm[a], sc.c.Magics[r.Cli[a-1]], sc.c.Flags[0], sc.c.Flags[1], r.Qf)
		if sc.cm[vm[a]] == nil {
			rep.Dead("library generated no data for %s version %d", t.Name, vm[a])
		}
	}
	sc.c.Proposed = hs.TableVersions(sc.cm)
	if !buildReply(j, sc, func(a int) (uint16, bool) { v, ok := vm[a]; return v, ok }) {
		return nil
	}
	return sc
}

// connection binding: the initiator proposes the library's full table; the
// window stands for the whole table (consecutive blocks of it, the format
// threshold where the table has it) and a seeded member represents each block.
func scenarioConn(j *job) *scenario {
	r := j.Row
	t := tables[j.Table]
	w := len(r.Cli)
	dom := hs.Dom(r.Cli)
	if len(dom) == 0 {
		return nil
	}
	for _, a := range dom {
		if r.Cli[a-1] != r.Cli[dom[0]-1] {
			return nil // a Connection has one magic
		}
	}
	pick := hs.Mix(seed, "blocks", j.File, j.Idx, t.Name)
	repr := map[int]uint16{}
	if len(t.Versions) == 1 {
		// the one-version table: the window's only proposed version is that version
		if len(dom) != 1 || r.K > dom[0] {
			return nil
		}
		for _, a := range windowVersionsOfReply(r) {
			if a != dom[0] {
				return nil
			}
		}
		if !t.Carries(t.Versions[0]) {
			return nil
		}
		repr[dom[0]] = t.Versions[0]
	} else {
		if len(dom) != w {
			return nil
		}
		var low, high []uint16
		for _, v := range t.Versions {
			if t.Carries(v) {
				high = append(high, v)
			} else {
				low = append(low, v)
			}
		}
		nl, nh := r.K-1, w-r.K+1
		if nl > len(low) || nh > len(high) || (nl == 0) != (len(low) == 0) || (nh == 0) != (len(high) == 0) {
			return nil
		}
		block := func(part []uint16, n, i int) uint16 { // i-th of n consecutive blocks of part, a seeded member
			lo, hi := i*len(part)/n, (i+1)*len(part)/n
			return part[lo+int((pick>>uint(4*i))%uint64(hi-lo))]
		}
		for a := 1; a <= w; a++ {
			if a < r.K {
				repr[a] = block(low, nl, a-1)
			} else {
				repr[a] = block(high, nh, a-r.K)
			}
		}
	}
	fx := hs.Mix(seed, "flags", j.File, j.Idx, t.Name, "conn")
	sc := &scenario{t: t, repr: repr, c: &concrete{Table: t.Name, Versions: map[string]uint16{},
		Magics: hs.Magics(hs.Mix(seed, "magics", j.File, j.Idx, t.Name, "conn"), true),
		Flags:  [2]bool{fx&1 == 1, fx&2 == 2}, Proposed: t.Versions}}
	for a, v := range repr {
		sc.c.Versions[fmt.Sprint(a)] = v
	}
	sc.conn = hs.ConnOpts{Magic: sc.c.Magics[r.Cli[dom[0]-1]], NtN: t.Name == "ntn", DMQ: t.Name == "dmqntc",
		FullDuplex: !sc.c.Flags[0], PeerSharing: sc.c.Flags[1], Query: r.Qf}
	sc.cfgMagic = map[uint16]uint32{}
	for _, v := range t.Versions {
		sc.cfgMagic[v] = sc.conn.Magic
	}
	if !buildReply(j, sc, func(a int) (uint16, bool) { v, ok := repr[a]; return v, ok }) {
		return nil
	}
	return sc
}

// disagree reports class:key, at most limit.Max times per (class, junk item, binding, table).
func disagree(j *job, class, key, desc string, rp *replay) {
	item := ""
	if i := strings.LastIndex(key, "\x00"); i >= 0 {
		item, key = key[i+1:], key[:i]
	}
	if limit.Take(class + item + ":" + j.Binding + ":" + j.Table) {
		rep.Disagree(class+":"+key, desc, rp)
	}
}

// itemClass separates findings about different junk items in the limiter.
func (sc *scenario) itemClass() string {
	if sc.item == "" {
		return ""
	}
	return "\x00" + sc.item
}

func sameVersions(a, b []uint16) bool { return fmt.Sprint(a) == fmt.Sprint(b) }

func run(j *job) (dead string) {
	r := j.Row
	var sc *scenario
	if j.Binding == "conn" {
		sc = scenarioConn(j)
	} else {
		sc = scenarioHs(j)
	}
	if sc == nil {
		return ""
	}
	alts := j.BySent
	if alts == nil {
		alts = bySent[indexKey(r)]
	}
	key := fmt.Sprintf("%s:%s:%s:%s%s", j.Binding, j.Table, r.CaseKey(), r.ReplyKey(), sc.item)
	rp := &replay{Job: *j, Concrete: *sc.c, Seed: seed, Expected: expectedString(r)}
	rp.Job.BySent = alts
	var co hs.Outcome
	var proposal *hs.Proposal
	var respErr error
	rep.Guard(key, rp, func() {
		a, b := net.Pipe()
		resp := hs.StartScriptedResponder(b, func(*hs.Proposal) []byte { return sc.reply })
		if j.Binding == "conn" {
			cr := hs.NewConn(a, false, sc.conn, deadline)
			co = cr.Outcome
			cr.Close()
		} else {
			c := hs.StartClient(a, sc.t.Mode, sc.cm)
			co = c.Await(deadline)
			c.Stop()
		}
		_ = a.Close()
		resp.Close()
		proposal, respErr = resp.Proposal, resp.Err
	})
	if proposal == nil {
		return fmt.Sprintf("the scripted responder never saw a proposal (%v); initiator: %s", respErr, co)
	}
	if co.Kind == "hang" {
		return "the reply was written but the initiator did not react: " + co.Err
	}
	// what was proposed is what is on the wire: the row with that sent set judges
	sent, missing, extra, otherMagic := sc.sentOf(r, proposal)
	rp.Wire, rp.Sent, rp.Observed = proposal.Versions, hs.SentKey(sent), co.String()
	if len(missing)+len(extra)+len(otherMagic) == 0 {
		stat("proposal:is the configured table")
	} else {
		// whether the proposal must be the configured table is C18's subject
		what := "proposal:differs from the configured table (C18's subject, not judged here)"
		stat(what)
		note(what, fmt.Sprintf("%s: configured %v, on the wire %v (not sent %v, not configured %v, another magic than configured %v)",
			key, sc.c.Proposed, proposal.Versions, missing, extra, otherMagic))
	}
	jr := r
	if hs.SentKey(sent) != hs.SentKey(hs.Dom(r.Cli)) {
		jr = alts[hs.SentKey(sent)]
		if jr == nil {
			what := "unjudged:the initiator sent a part of its table for which this tier's specification runs hold no row"
			stat(what)
			note(what, fmt.Sprintf("%s: sent %s", key, hs.SentKey(sent)))
			return ""
		}
		key = fmt.Sprintf("%s:%s:%s:%s%s", j.Binding, j.Table, jr.CaseKey(), jr.ReplyKey(), sc.item)
		rp.Expected = expectedString(jr)
		stat("judged by a row with a proper part of the table sent")
	}
	if r.Reply.T == "accept" && proposal.Has(sc.wantVer) {
		// the statement does not say which of the two is "proposed" / "its own magic" when the initiator
		// sends something it was not configured with: such an acceptance is not judged
		if has(extra, sc.wantVer) || has(otherMagic, sc.wantVer) {
			what := "unjudged:accept of a version the initiator proposed without being configured with it, or with another magic than configured"
			stat(what)
			note(what, key+": "+co.String())
			return ""
		}
	}
	nontrivial := jr.Reply.T == "accept"
	rep.Case(key, nontrivial)
	stat(j.Binding + ":" + j.Table + ":" + jr.Reply.T + ":" + jr.Cres.Kind)
	why := append([]string(nil), jr.Why...)
	sort.Strings(why)
	switch jr.Cres.Kind {
	case "ok":
		switch {
		case co.Kind != "ok":
			disagree(j, "valid-accept-not-taken", key,
				fmt.Sprintf("the responder accepted proposed version %d with well-formed data and the proposed magic %d; the initiator reported: %s", sc.wantVer, sc.wantMag, co), rp)
		case co.Version != sc.wantVer:
			disagree(j, "wrong-version", key, fmt.Sprintf("accept names version %d, the initiator finished with %d", sc.wantVer, co.Version), rp)
		case co.Data == nil || co.Data.NetworkMagic() != sc.wantMag:
			disagree(j, "wrong-data", key, fmt.Sprintf("accept carries magic %d, the initiator finished with %s", sc.wantMag, hs.DataString(co.Data)), rp)
		}
	case "error":
		if co.Kind == "ok" {
			disagree(j, "accepted:"+strings.Join(why, "+"), key+sc.itemClass(),
				fmt.Sprintf("the initiator proposed %v (configured with %v, magic as configured) and finished the handshake with version %d, %s, on an accept that must fail (%s)",
					proposal.Versions, sc.c.Proposed, co.Version, hs.DataString(co.Data), strings.Join(why, ", ")), rp)
		} else if co.Kind == "query" {
			disagree(j, "accept-became-query", key, "an accept was reported as a query reply: "+co.String(), rp)
		}
	case "mismatch", "refused", "decodeerror":
		if co.Kind == "ok" {
			disagree(j, "selected-on-refusal", key, fmt.Sprintf("a refusal made the initiator finish with version %d", co.Version), rp)
		} else if co.Kind != jr.Cres.Kind ||
			(co.Kind == "mismatch" && !sameVersions(co.Versions, sc.refVs) && len(co.Versions)+len(sc.refVs) > 0) ||
			(co.Kind != "mismatch" && co.Version != sc.refVer) {
			// how a refusal is reported is C18's subject; here it only must not select
			stat("observation:refusal reported differently")
			note("refusal reported differently", key+": "+co.String())
		}
	case "query":
		if co.Kind == "ok" || co.Version != 0 {
			disagree(j, "selected-on-query-reply", key, fmt.Sprintf("a query reply made the initiator finish with version %d", co.Version), rp)
		} else if co.Kind == "query" && !r.Qf {
			// the property does not say what an initiator that did not ask does with a query reply
			stat("observation:unsolicited query reply ends the handshake without error and without a version (" + j.Binding + ")")
			if !sameVersions(hs.TableVersions(co.QueryTable), sc.queryVs) {
				note("query table differs", key+": "+co.String())
			}
		}
	default:
		rep.Dead("row with expected kind %q", jr.Cres.Kind)
	}
	rep.Sample(fmt.Sprintf("%s: proposed %v, reply %s -> %s", key, proposal.Versions, sc.c.ReplyHex, co))
	return ""
}

func main() {
	rep = vh.NewReporter()
	seed = vh.Seed()
	ts, bad := hs.Tables()
	if bad != "" {
		rep.Dead("%s", bad)
	}
	tables = map[string]*hs.Table{}
	for _, t := range ts {
		tables[t.Name] = t
	}
	unknown = hs.UnknownVersions()
	if len(unknown) < 4 {
		rep.Dead("only %d version numbers without a decoder", len(unknown))
	}
	args := os.Args[1:]
	var jobs []*job
	sentRows := 0
	if len(args) == 2 && args[0] == "-replay" {
		b, err := os.ReadFile(args[1])
		if err != nil {
			rep.Dead("%v", err)
		}
		var rp replay
		if err := json.Unmarshal(b, &rp); err != nil {
			rep.Dead("replay file: %v", err)
		}
		seed = rp.Seed
		j := rp.Job
		jobs = append(jobs, &j)
	} else {
		thorough := vh.Tier() == "thorough"
		for _, f := range args {
			rows, err := vh.ReadNDJSON[hs.Row](f)
			if err != nil {
				rep.Dead("%v", err)
			}
			if len(rows) == 0 {
				rep.Dead("%s holds no rows", f)
			}
			name := strings.TrimSuffix(f[strings.LastIndex(f, "/")+1:], ".ndjson")
			for i := range rows {
				r := &rows[i]
				if r.Mode != "adversary" {
					rep.Dead("%s row %d is not an adversarial-responder run", f, i)
				}
				ik := indexKey(r)
				if bySent[ik] == nil {
					bySent[ik] = map[string]*hs.Row{}
				}
				bySent[ik][hs.SentKey(r.Sent())] = r
				if !r.SentAll() {
					// reached only if the initiator really sends that part of its table: looked up after a run
					sentRows++
					continue
				}
				cardano := []string{"ntn", "ntc"}
				if !thorough {
					cardano = cardano[hs.Mix(seed, "table", name, i)%2:][:1]
				}
				for _, tn := range append(cardano, "dmqntn", "dmqntc") {
					jobs = append(jobs, &job{Row: r, Idx: i, File: name, Binding: "hs", Table: tn})
				}
				for _, tn := range []string{"ntn", "ntc", "dmqntc"} {
					jobs = append(jobs, &job{Row: r, Idx: i, File: name, Binding: "conn", Table: tn})
				}
			}
		}
	}
	workers := 4 * runtime.GOMAXPROCS(0)
	if workers > 48 {
		workers = 48
	}
	var wg sync.WaitGroup
	ch := make(chan *job, 1024)
	var mu sync.Mutex
	var retry []*job
	first := map[*job]string{}
	for w := 0; w < workers; w++ {
		wg.Add(1)
		go func() {
			defer wg.Done()
			for j := range ch {
				if why := run(j); why != "" {
					mu.Lock()
					retry = append(retry, j)
					first[j] = why
					mu.Unlock()
				}
			}
		}()
	}
	for _, j := range jobs {
		ch <- j
	}
	close(ch)
	wg.Wait()
	// an initiator that did not react within the deadline while the machine was busy gets a second, undisturbed chance;
	// a second silence is its behaviour, not load
	for _, j := range retry {
		if why := run(j); why != "" {
			key := fmt.Sprintf("%s:%s:%s:%s", j.Binding, j.Table, j.Row.CaseKey(), j.Row.ReplyKey())
			if strings.HasPrefix(why, "the reply was written") {
				rep.Case(key, true)
				rep.Disagree("hang:"+key, why+" (twice, "+deadline.String()+" each)", &replay{Job: *j, Seed: seed, Expected: expectedString(j.Row)})
			} else {
				rep.Dead("%s twice: %s (first: %s)", key, why, first[j])
			}
		}
	}
	rep.Extra["runs_by_binding_table_reply_expected"] = stats
	rep.Extra["retried_after_deadline"] = len(retry)
	rep.Extra["specification_rows_with_a_proper_part_of_the_table_sent"] = sentRows
	if len(limit.Counts) > 0 {
		rep.Extra["disagreements_by_class_binding_table"] = limit.Counts
		rep.Extra["disagreements_reported_per_class_at_most"] = limit.Max
	}
	if len(notes) > 0 {
		rep.Extra["observations"] = notes
	}
	rep.Finish()
}
