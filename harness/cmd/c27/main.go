// c27: replays every TLC-generated value-conservation case (spec/ledger/
// ValueConservation.tla) on the real UtxoValidateValueNotConservedUtxo of the
// case's era. The transaction is built from the era's concrete types, the
// ledger state is the ouroboros-mock one (UTxO lookup, registered pools), the
// protocol parameters carry the case's deposits. Each case is replayed at
// several scales q -> q*M (homomorphic scaling: the rule only adds), with
// different policy ids / asset names and UTxO output types. The verdict of the
// TLC row is the oracle; the driver computes no balance.
//
// Pool table: the row's field pools gives the ledger-state history of the three
// pools a registration certificate can name (unknown / registered / registered
// with a retirement announced); the ledger state stub answers PoolCurrentState
// from it, with a retirement epoch for a retiring pool.
//
// Phase-2 flag: a row with p2 = true is built with is_valid = false (Alonzo
// onwards). The driver calls the value-conservation rule alone, so nothing
// else about the transaction has to change (no redeemer / collateral is needed
// to get past other rules); the specification's verdict does not read the flag,
// so the flagged replay must answer exactly like its unflagged twin.
package main

import (
	"errors"
	"fmt"
	"math/big"
	"math/bits"
	"math/rand"
	"os"
	"reflect"
	"strconv"
	"strings"

	"github.com/blinklabs-io/gouroboros/cbor"
	"github.com/blinklabs-io/gouroboros/ledger/allegra"
	"github.com/blinklabs-io/gouroboros/ledger/alonzo"
	"github.com/blinklabs-io/gouroboros/ledger/babbage"
	"github.com/blinklabs-io/gouroboros/ledger/common"
	"github.com/blinklabs-io/gouroboros/ledger/conway"
	"github.com/blinklabs-io/gouroboros/ledger/dijkstra"
	"github.com/blinklabs-io/gouroboros/ledger/mary"
	"github.com/blinklabs-io/gouroboros/ledger/shelley"
	mockledger "github.com/blinklabs-io/ouroboros-mock/ledger"

	"verifharness/vh"
)

type ent struct {
	C int64 `json:"c"`
	A int64 `json:"a"` // first asset
	B int64 `json:"b"` // second asset (same policy id in the model)
}

type row struct {
	Era   string   `json:"era"`
	Bag   []int    `json:"bag"`
	J     int      `json:"j"`
	Var   string   `json:"var"`
	Certs []string `json:"certs"`
	PP    struct {
		Key  int64 `json:"key"`
		Pool int64 `json:"pool"`
		Drep int64 `json:"drep"`
		Gov  int64 `json:"gov"`
	} `json:"pp"`
	// the ledger state's pool table: pool ("A", "B", "old") -> "unknown" | "registered" | "retiring"
	Pools  map[string]string `json:"pools"`
	Ins    []ent             `json:"ins"`
	Outs   []ent             `json:"outs"`
	Fee    int64             `json:"fee"`
	Wds    []int64           `json:"wds"`
	Mint   int64             `json:"mint"`
	Mintb  int64             `json:"mintb"`
	Don    int64             `json:"don"`
	Nprop  int               `json:"nprop"`
	P2     bool              `json:"p2"`     // build the transaction with is_valid = false
	P2Wire bool              `json:"p2wire"` // ... and the flag is part of the transaction's own encoding
	Accept bool              `json:"accept"`
	CC     int64             `json:"cc"`
	PC     int64             `json:"pc"`
	CA     int64             `json:"ca"`
	PA     int64             `json:"pa"`
	CB     int64             `json:"cb"`
	PB     int64             `json:"pb"`
	Merged bool              `json:"merged"` // balances only if the two assets are confused
}

var eraOrder = []string{"shelley", "allegra", "mary", "alonzo", "babbage", "conway", "dijkstra"}

func eraIdx(e string) int {
	for i, x := range eraOrder {
		if x == e {
			return i
		}
	}
	return -1
}

func hasAssets(e string) bool { return eraIdx(e) >= 2 }
func hasFlag(e string) bool   { return eraIdx(e) >= 3 } // the era's transaction type has TxIsValid

func ents(es []ent) string {
	p := make([]string, len(es))
	for i, e := range es {
		p[i] = fmt.Sprintf("%d/%d/%d", e.C, e.A, e.B)
	}
	return strings.Join(p, ",")
}

func ints(vs []int64) string {
	p := make([]string, len(vs))
	for i, v := range vs {
		p[i] = fmt.Sprint(v)
	}
	return strings.Join(p, ",")
}

// caseKey is stable: it names the abstract case completely and contains no random bytes.
func (r *row) caseKey() string {
	// "mint=0" iff nothing is minted or burnt; otherwise both amounts, signed
	// (the known-finding patterns rely on the first character)
	mint := "0"
	if r.Mint != 0 || r.Mintb != 0 {
		mint = fmt.Sprintf("%+d/%+d", r.Mint, r.Mintb)
	}
	k := fmt.Sprintf("era=%s:certs=%s:pp=%d.%d.%d.%d:in=%s:out=%s:fee=%d:wd=%s:mint=%s:don=%d:prop=%d",
		r.Era, strings.Join(r.Certs, "+"), r.PP.Key, r.PP.Pool, r.PP.Drep, r.PP.Gov,
		ents(r.Ins), ents(r.Outs), r.Fee, ints(r.Wds), mint, r.Don, r.Nprop)
	// the pool table is named only where it differs from the one every case had before
	// the table became a coordinate (A, B unknown; old registered, no retirement pending)
	for _, q := range poolNames {
		if st := r.poolState(q); st != defaultPools[q] {
			k += ":pool" + q + "=" + st
		}
	}
	return k
}

var poolNames = []string{"A", "B", "old"}
var defaultPools = map[string]string{"A": "unknown", "B": "unknown", "old": "registered"}

func (r *row) poolState(q string) string {
	if st, ok := r.Pools[q]; ok {
		return st
	}
	return defaultPools[q]
}

// ---------------------------------------------------------------------------
// concrete values

type gen struct{ rng *rand.Rand }

func (g *gen) bytes(n int) []byte {
	b := make([]byte, n)
	g.rng.Read(b)
	return b
}
func (g *gen) h224() common.Blake2b224 { return common.NewBlake2b224(g.bytes(28)) }
func (g *gen) h256() common.Blake2b256 { return common.NewBlake2b256(g.bytes(32)) }
func (g *gen) cred() common.Credential {
	return common.Credential{CredType: common.CredentialTypeAddrKeyHash, Credential: g.h224()}
}

func (g *gen) addr(header byte) (common.Address, error) {
	return common.NewAddressFromBytes(append([]byte{header}, g.bytes(28)...))
}

// variant of one replay of a case
type variant struct {
	sc     int                  // scale index
	mc, ma *big.Int             // coin / asset multiplier
	pol    string               // policy-id class
	nm     string               // asset-name class: how the two abstract assets are told apart
	policy [2]common.Blake2b224 // policy id of asset a, b (equal except for nm = "twopol")
	name   [2][]byte            // asset name of asset a, b
	decoy  bool                 // add a second, trivially balanced asset
	zeroes bool                 // spell zero asset quantities out instead of omitting them
}

func bitlen(v int64) int { return bits.Len64(uint64(v)) }

func absI(v int64) int64 {
	if v < 0 {
		return -v
	}
	return v
}

func (r *row) maxCoin() int64 {
	m := max(r.PP.Key, r.PP.Pool, r.PP.Drep, r.PP.Gov, r.Fee, r.Don, 1)
	for _, e := range r.Ins {
		m = max(m, e.C)
	}
	for _, e := range r.Outs {
		m = max(m, e.C)
	}
	for _, w := range r.Wds {
		m = max(m, w)
	}
	return m
}

func (r *row) maxAsset() int64 {
	m := max(absI(r.Mint), absI(r.Mintb), 1)
	for _, e := range r.Ins {
		m = max(m, e.A, e.B)
	}
	for _, e := range r.Outs {
		m = max(m, e.A, e.B)
	}
	return m
}

func (r *row) usesAssets() bool {
	if r.Mint != 0 || r.Mintb != 0 {
		return true
	}
	for _, e := range r.Ins {
		if e.A != 0 || e.B != 0 {
			return true
		}
	}
	for _, e := range r.Outs {
		if e.A != 0 || e.B != 0 {
			return true
		}
	}
	return false
}

var polClasses = []string{"zero", "zeroname", "ff", "rand"}

// asset-name classes: concrete identities of the two abstract assets that a
// careless map key could confuse
var nmClasses = []string{"nul", "rand", "empty", "prefix", "last32", "twopol"}

func (g *gen) names(nm string) (a, b []byte) {
	switch nm {
	case "nul": // differ by a trailing zero byte
		return []byte("TOK"), []byte("TOK\x00")
	case "empty": // the empty name and a single zero byte
		return []byte{}, []byte{0}
	case "prefix": // one name is a prefix of the other
		return []byte("AB"), []byte("ABC")
	case "last32": // maximal length, differ in the last byte only
		a = g.bytes(32)
		b = append([]byte{}, a...)
		b[31] ^= 1
		return a, b
	case "twopol": // the same name under two policy ids
		a = g.bytes(1 + g.rng.Intn(32))
		return a, append([]byte{}, a...)
	}
	a = g.bytes(1 + g.rng.Intn(32))
	b = g.bytes(1 + g.rng.Intn(32))
	if string(a) == string(b) {
		b = append(b, 1)
	}
	return a, b
}

func (g *gen) variants(r *row, idx int) []variant {
	one := big.NewInt(1)
	pow := func(k int) *big.Int { return new(big.Int).Lsh(one, uint(k)) }
	// every single amount stays below 2^63 (certificate deposits are int64,
	// everything else uint64); the sums cross 2^63 and 2^64
	big3 := variant{sc: 2, mc: pow(63 - bitlen(r.maxCoin())), ma: pow(63 - bitlen(r.maxAsset())), pol: "rand"}
	vs := []variant{
		{sc: 0, mc: big.NewInt(1), ma: big.NewInt(1), pol: "rand"},
		{sc: 1, mc: big.NewInt(1_000_000), ma: big.NewInt(7), pol: polClasses[idx%len(polClasses)], decoy: true, zeroes: idx%8 >= 4},
		big3,
	}
	if r.P2 && (vs[1].pol == "zero" || vs[1].pol == "zeroname") {
		// The all-zero policy id is a dimension of its own (and the place of the
		// known deviation F-C27-b, whose keys name unflagged replays); it is
		// crossed with the unflagged cases only. Flagged replays take the other
		// two classes.
		vs[1].pol = []string{"ff", "rand"}[(idx/4)%2]
	}
	if p := os.Getenv("C27_FORCE_POL"); p != "" { // replay of one saved case
		vs[1].pol, vs[1].zeroes = p, os.Getenv("C27_FORCE_ZEROES") == "1"
	}
	for i := range vs {
		v := &vs[i]
		if !hasAssets(r.Era) {
			v.pol, v.nm, v.decoy, v.zeroes = "na", "na", false, false
			continue
		}
		// the three replays of a case use three different name classes
		v.nm = nmClasses[(idx+2*v.sc)%len(nmClasses)]
		if n := os.Getenv("C27_FORCE_NM"); n != "" {
			v.nm = n
		}
		var pol common.Blake2b224
		switch v.pol {
		case "zero": // all-zero policy id, asset a has the empty name
			v.nm = "empty"
		case "zeroname": // all-zero policy id, non-empty asset names
			if v.nm == "empty" {
				v.nm = "nul"
			}
		case "ff":
			pol = common.NewBlake2b224([]byte(strings.Repeat("\xff", 28)))
		default:
			v.pol = "rand"
			pol = g.h224()
		}
		na, nb := g.names(v.nm)
		if v.pol != "zero" && g.rng.Intn(2) == 0 {
			na, nb = nb, na
		}
		v.policy, v.name = [2]common.Blake2b224{pol, pol}, [2][]byte{na, nb}
		if v.nm == "twopol" {
			v.policy[1] = g.h224()
		}
	}
	return vs
}

func mul(v int64, m *big.Int) *big.Int { return new(big.Int).Mul(big.NewInt(v), m) }

func u64(v int64, m *big.Int) (uint64, error) {
	x := mul(v, m)
	if x.Sign() < 0 || !x.IsUint64() {
		return 0, fmt.Errorf("amount %v does not fit uint64", x)
	}
	return x.Uint64(), nil
}

func i64(v int64, m *big.Int) (int64, error) {
	x := mul(v, m)
	if !x.IsInt64() {
		return 0, fmt.Errorf("amount %v does not fit int64", x)
	}
	return x.Int64(), nil
}

var decoyName = []byte("decoy-asset")

const decoyQty = 5

// assets builds the multi-asset part of an input/output holding qa units of
// asset a and qb units of asset b
func (v *variant) assets(qa, qb int64, withDecoy bool) *common.MultiAsset[common.MultiAssetTypeOutput] {
	m := map[common.Blake2b224]map[cbor.ByteString]*big.Int{}
	put := func(pol common.Blake2b224, name []byte, q *big.Int) {
		if m[pol] == nil {
			m[pol] = map[cbor.ByteString]*big.Int{}
		}
		m[pol][cbor.NewByteString(name)] = q
	}
	if qa != 0 || v.zeroes {
		put(v.policy[0], v.name[0], mul(qa, v.ma))
	}
	if qb != 0 || v.zeroes {
		put(v.policy[1], v.name[1], mul(qb, v.ma))
	}
	if withDecoy {
		put(v.policy[0], decoyName, big.NewInt(decoyQty))
	}
	if len(m) == 0 {
		return nil
	}
	ma := common.NewMultiAsset[common.MultiAssetTypeOutput](m)
	return &ma
}

// output builds a transaction output of the given era's concrete type
func (g *gen) output(era string, e ent, v *variant, withDecoy bool) (common.TransactionOutput, error) {
	a, err := g.addr(0x61)
	if err != nil {
		return nil, err
	}
	coin, err := u64(e.C, v.mc)
	if err != nil {
		return nil, err
	}
	var as *common.MultiAsset[common.MultiAssetTypeOutput]
	if hasAssets(era) {
		as = v.assets(e.A, e.B, withDecoy)
	} else if e.A != 0 || e.B != 0 || withDecoy {
		return nil, fmt.Errorf("era %s output cannot hold assets", era)
	}
	val := mary.MaryTransactionOutputValue{Amount: coin, Assets: as}
	switch era {
	case "shelley", "allegra":
		return &shelley.ShelleyTransactionOutput{OutputAddress: a, OutputAmount: coin}, nil
	case "mary":
		return &mary.MaryTransactionOutput{OutputAddress: a, OutputAmount: val}, nil
	case "alonzo":
		return &alonzo.AlonzoTransactionOutput{OutputAddress: a, OutputAmount: val}, nil
	case "babbage", "conway":
		return &babbage.BabbageTransactionOutput{OutputAddress: a, OutputAmount: val}, nil
	case "dijkstra":
		return &dijkstra.DijkstraTransactionOutput{
			Output: &babbage.BabbageTransactionOutput{OutputAddress: a, OutputAmount: val}}, nil
	}
	return nil, fmt.Errorf("unknown era %q", era)
}

type pools struct{ a, b, old common.PoolKeyHash }

func (g *gen) poolCert(op common.PoolKeyHash) *common.PoolRegistrationCertificate {
	return &common.PoolRegistrationCertificate{
		CertType:      uint(common.CertificateTypePoolRegistration),
		Operator:      op,
		VrfKeyHash:    g.h256(),
		Pledge:        uint64(g.rng.Intn(1000)),
		Cost:          340_000_000,
		Margin:        cbor.Rat{Rat: big.NewRat(1, 20)},
		RewardAccount: g.h224(),
		PoolOwners:    []common.AddrKeyHash{g.h224()},
		Relays:        []common.PoolRelay{},
	}
}

// cert builds the concrete certificate for an abstract kind. Deposits carried
// by Conway certificates are well formed: equal to the protocol parameter.
func (g *gen) cert(kind string, r *row, v *variant, p *pools) (common.CertificateWrapper, error) {
	keyDep, err := i64(r.PP.Key, v.mc)
	if err != nil {
		return common.CertificateWrapper{}, err
	}
	drepDep, err := i64(r.PP.Drep, v.mc)
	if err != nil {
		return common.CertificateWrapper{}, err
	}
	cred := g.cred()
	drep := common.Drep{Type: common.DrepTypeAbstain}
	var c common.Certificate
	var t common.CertificateType
	switch kind {
	case "stake_reg":
		t = common.CertificateTypeStakeRegistration
		c = &common.StakeRegistrationCertificate{CertType: uint(t), StakeCredential: cred}
	case "stake_dereg":
		t = common.CertificateTypeStakeDeregistration
		c = &common.StakeDeregistrationCertificate{CertType: uint(t), StakeCredential: cred}
	case "stake_deleg":
		t = common.CertificateTypeStakeDelegation
		c = &common.StakeDelegationCertificate{CertType: uint(t), StakeCredential: &cred, PoolKeyHash: p.old}
	case "poolreg_newA":
		t = common.CertificateTypePoolRegistration
		c = g.poolCert(p.a)
	case "poolreg_newB":
		t = common.CertificateTypePoolRegistration
		c = g.poolCert(p.b)
	case "poolreg_old":
		t = common.CertificateTypePoolRegistration
		c = g.poolCert(p.old)
	case "pool_retire":
		t = common.CertificateTypePoolRetirement
		c = &common.PoolRetirementCertificate{CertType: uint(t), PoolKeyHash: p.old, Epoch: 500}
	case "genesis_deleg":
		t = common.CertificateTypeGenesisKeyDelegation
		c = &common.GenesisKeyDelegationCertificate{CertType: uint(t), GenesisHash: g.bytes(28),
			GenesisDelegateHash: g.bytes(28), VrfKeyHash: g.h256()}
	case "reg_dep":
		t = common.CertificateTypeRegistration
		c = &common.RegistrationCertificate{CertType: uint(t), StakeCredential: cred, Amount: keyDep}
	case "dereg_dep":
		t = common.CertificateTypeDeregistration
		c = &common.DeregistrationCertificate{CertType: uint(t), StakeCredential: cred, Amount: keyDep}
	case "vote_deleg":
		t = common.CertificateTypeVoteDelegation
		c = &common.VoteDelegationCertificate{CertType: uint(t), StakeCredential: cred, Drep: drep}
	case "stake_reg_deleg":
		t = common.CertificateTypeStakeRegistrationDelegation
		c = &common.StakeRegistrationDelegationCertificate{CertType: uint(t), StakeCredential: cred,
			PoolKeyHash: p.old, Amount: keyDep}
	case "vote_reg_deleg":
		t = common.CertificateTypeVoteRegistrationDelegation
		c = &common.VoteRegistrationDelegationCertificate{CertType: uint(t), StakeCredential: cred,
			Drep: drep, Amount: keyDep}
	case "stake_vote_reg_deleg":
		t = common.CertificateTypeStakeVoteRegistrationDelegation
		c = &common.StakeVoteRegistrationDelegationCertificate{CertType: uint(t), StakeCredential: cred,
			PoolKeyHash: p.old, Drep: drep, Amount: keyDep}
	case "drep_reg":
		t = common.CertificateTypeRegistrationDrep
		c = &common.RegistrationDrepCertificate{CertType: uint(t), DrepCredential: cred, Amount: drepDep}
	case "drep_dereg":
		t = common.CertificateTypeDeregistrationDrep
		c = &common.DeregistrationDrepCertificate{CertType: uint(t), DrepCredential: cred, Amount: drepDep}
	case "drep_update":
		t = common.CertificateTypeUpdateDrep
		c = &common.UpdateDrepCertificate{CertType: uint(t), DrepCredential: cred}
	default:
		return common.CertificateWrapper{}, fmt.Errorf("unknown certificate kind %q", kind)
	}
	return common.CertificateWrapper{Type: uint(t), Certificate: c}, nil
}

type built struct {
	tx       common.Transaction
	ls       common.LedgerState
	pp       common.ProtocolParameters
	utxoEras []string
	dump     map[string]any
}

// build maps one abstract case + variant onto the era's concrete types.
func (g *gen) build(r *row, v *variant) (*built, error) {
	era := r.Era
	ei := eraIdx(era)
	if ei < 0 {
		return nil, fmt.Errorf("unknown era %q", era)
	}
	b := &built{dump: map[string]any{}}
	// --- UTxO and inputs ---------------------------------------------------
	decoy := v.decoy && hasAssets(era) && len(r.Outs) > 0
	utxo := map[string]common.Utxo{}
	var inputs []shelley.ShelleyTransactionInput
	txid := g.h256()
	for i, e := range r.Ins {
		in := shelley.ShelleyTransactionInput{TxId: txid, OutputIndex: uint32(i)}
		if i%2 == 1 {
			in.TxId = g.h256()
		}
		// the spent output may be of any era up to the transaction's
		lo := 0
		wd := decoy && i == 0
		if e.A != 0 || e.B != 0 || wd || (v.zeroes && hasAssets(era)) {
			lo = 2
		}
		oe := eraOrder[lo+g.rng.Intn(min(ei, 5)-lo+1)]
		if era == "dijkstra" && g.rng.Intn(3) == 0 {
			oe = "dijkstra"
		}
		out, err := g.output(oe, e, v, wd)
		if err != nil {
			return nil, err
		}
		b.utxoEras = append(b.utxoEras, oe)
		utxo[in.String()] = common.Utxo{Id: in, Output: out}
		inputs = append(inputs, in)
	}
	// --- pools, ledger state -------------------------------------------------
	p := &pools{a: g.h224(), b: g.h224(), old: g.h224()}
	// the ledger state's pool table, as the case gives it: an unknown pool has no
	// registration; a registered one has; a retiring one has a registration and the
	// epoch of its announced retirement (any epoch: near, far, extreme)
	type poolEntry struct {
		reg    *common.PoolRegistrationCertificate
		retire *uint64
	}
	table := map[common.PoolKeyHash]poolEntry{}
	retireEpochs := []uint64{501, 0, 1, 1 << 32, 1<<63 - 1, 1<<64 - 1, 500, 10_000}
	for i, q := range poolNames {
		id := []common.PoolKeyHash{p.a, p.b, p.old}[i]
		switch st := r.poolState(q); st {
		case "unknown":
		case "registered":
			table[id] = poolEntry{reg: g.poolCert(id)}
		case "retiring":
			e := retireEpochs[g.rng.Intn(len(retireEpochs))]
			table[id] = poolEntry{reg: g.poolCert(id), retire: &e}
			b.dump["retirement_epoch_pool_"+q] = strconv.FormatUint(e, 10)
		default:
			return nil, fmt.Errorf("unknown pool state %q", st)
		}
	}
	b.ls = mockledger.NewLedgerStateBuilder().
		WithUtxoById(func(id common.TransactionInput) (common.Utxo, error) {
			if u, ok := utxo[id.String()]; ok {
				return u, nil
			}
			return common.Utxo{}, errors.New("utxo not found")
		}).
		WithPoolCurrentState(func(id common.PoolKeyHash) (*common.PoolRegistrationCertificate, *uint64, error) {
			if e, ok := table[id]; ok {
				var ep *uint64
				if e.retire != nil {
					v := *e.retire
					ep = &v
				}
				return e.reg, ep, nil
			}
			return nil, nil, nil
		}).
		Build()
	// --- body fields -------------------------------------------------------------
	fee, err := u64(r.Fee, v.mc)
	if err != nil {
		return nil, err
	}
	var certs []common.CertificateWrapper
	for _, k := range r.Certs {
		c, err := g.cert(k, r, v, p)
		if err != nil {
			return nil, err
		}
		certs = append(certs, c)
	}
	var wds map[*common.Address]uint64
	if len(r.Wds) > 0 {
		wds = map[*common.Address]uint64{}
		for _, w := range r.Wds {
			a, err := g.addr(0xE1)
			if err != nil {
				return nil, err
			}
			amt, err := u64(w, v.mc)
			if err != nil {
				return nil, err
			}
			wds[&a] = amt
		}
	}
	var mint *common.MultiAsset[common.MultiAssetTypeMint]
	if hasAssets(era) && (r.Mint != 0 || r.Mintb != 0 || v.zeroes) {
		mm := map[common.Blake2b224]map[cbor.ByteString]*big.Int{}
		for i, q := range []int64{r.Mint, r.Mintb} {
			if q == 0 && !v.zeroes {
				continue
			}
			if mm[v.policy[i]] == nil {
				mm[v.policy[i]] = map[cbor.ByteString]*big.Int{}
			}
			mm[v.policy[i]][cbor.NewByteString(v.name[i])] = mul(q, v.ma)
		}
		m := common.NewMultiAsset[common.MultiAssetTypeMint](mm)
		mint = &m
	} else if r.Mint != 0 || r.Mintb != 0 {
		return nil, fmt.Errorf("era %s cannot mint", era)
	}
	outs := make([]common.TransactionOutput, len(r.Outs))
	for i, e := range r.Outs {
		o, err := g.output(era, e, v, decoy && i == len(r.Outs)-1)
		if err != nil {
			return nil, err
		}
		outs[i] = o
	}
	key, err := u64(r.PP.Key, v.mc)
	if err != nil {
		return nil, err
	}
	pool, err := u64(r.PP.Pool, v.mc)
	if err != nil {
		return nil, err
	}
	don, err := u64(r.Don, v.mc)
	if err != nil {
		return nil, err
	}
	gov, err := u64(r.PP.Gov, v.mc)
	if err != nil {
		return nil, err
	}
	drep, err := u64(r.PP.Drep, v.mc)
	if err != nil {
		return nil, err
	}
	if ei < 5 && (r.Don != 0 || r.Nprop != 0) {
		return nil, fmt.Errorf("era %s has no donation / proposals", era)
	}
	if r.P2 && !hasFlag(era) {
		return nil, fmt.Errorf("era %s has no is_valid flag", era)
	}
	isValid := !r.P2
	propAddr, err := g.addr(0xE1)
	if err != nil {
		return nil, err
	}
	anchor := common.GovAnchor{Url: "https://example.invalid/a"}
	// --- the era's transaction and parameters --------------------------------------
	switch era {
	case "shelley":
		tx := &shelley.ShelleyTransaction{}
		tx.Body.TxInputs = shelley.NewShelleyTransactionInputSet(inputs)
		for _, o := range outs {
			tx.Body.TxOutputs = append(tx.Body.TxOutputs, *o.(*shelley.ShelleyTransactionOutput))
		}
		tx.Body.TxFee, tx.Body.TxCertificates, tx.Body.TxWithdrawals = fee, certs, wds
		tx.Body.Ttl = 1000
		pp := mockledger.NewMockShelleyProtocolParams()
		pp.KeyDeposit, pp.PoolDeposit = uint(key), uint(pool)
		b.tx, b.pp = tx, &pp
	case "allegra":
		tx := &allegra.AllegraTransaction{}
		tx.Body.TxInputs = shelley.NewShelleyTransactionInputSet(inputs)
		for _, o := range outs {
			tx.Body.TxOutputs = append(tx.Body.TxOutputs, *o.(*shelley.ShelleyTransactionOutput))
		}
		tx.Body.TxFee, tx.Body.TxCertificates, tx.Body.TxWithdrawals = fee, certs, wds
		tx.Body.Ttl = 1000
		pp := mockledger.NewMockAllegraProtocolParams()
		pp.KeyDeposit, pp.PoolDeposit = uint(key), uint(pool)
		b.tx, b.pp = tx, &pp
	case "mary":
		tx := &mary.MaryTransaction{}
		tx.Body.TxInputs = shelley.NewShelleyTransactionInputSet(inputs)
		for _, o := range outs {
			tx.Body.TxOutputs = append(tx.Body.TxOutputs, *o.(*mary.MaryTransactionOutput))
		}
		tx.Body.TxFee, tx.Body.TxCertificates, tx.Body.TxWithdrawals = fee, certs, wds
		tx.Body.Ttl, tx.Body.TxMint = 1000, mint
		pp := mockledger.NewMockMaryProtocolParams()
		pp.KeyDeposit, pp.PoolDeposit = uint(key), uint(pool)
		b.tx, b.pp = tx, &pp
	case "alonzo":
		tx := &alonzo.AlonzoTransaction{TxIsValid: isValid}
		tx.Body.TxInputs = shelley.NewShelleyTransactionInputSet(inputs)
		for _, o := range outs {
			tx.Body.TxOutputs = append(tx.Body.TxOutputs, *o.(*alonzo.AlonzoTransactionOutput))
		}
		tx.Body.TxFee, tx.Body.TxCertificates, tx.Body.TxWithdrawals = fee, certs, wds
		tx.Body.Ttl, tx.Body.TxMint = 1000, mint
		pp := mockledger.NewMockAlonzoProtocolParams()
		pp.KeyDeposit, pp.PoolDeposit = uint(key), uint(pool)
		b.tx, b.pp = tx, &pp
	case "babbage":
		tx := &babbage.BabbageTransaction{TxIsValid: isValid}
		tx.Body.TxInputs = shelley.NewShelleyTransactionInputSet(inputs)
		for _, o := range outs {
			tx.Body.TxOutputs = append(tx.Body.TxOutputs, *o.(*babbage.BabbageTransactionOutput))
		}
		tx.Body.TxFee, tx.Body.TxCertificates, tx.Body.TxWithdrawals = fee, certs, wds
		tx.Body.Ttl, tx.Body.TxMint = 1000, mint
		pp := mockledger.NewMockBabbageProtocolParams()
		pp.KeyDeposit, pp.PoolDeposit = uint(key), uint(pool)
		b.tx, b.pp = tx, &pp
	case "conway":
		tx := &conway.ConwayTransaction{TxIsValid: isValid}
		tx.Body.TxInputs = conway.NewConwayTransactionInputSet(inputs)
		for _, o := range outs {
			tx.Body.TxOutputs = append(tx.Body.TxOutputs, *o.(*babbage.BabbageTransactionOutput))
		}
		tx.Body.TxFee, tx.Body.TxCertificates, tx.Body.TxWithdrawals = fee, certs, wds
		tx.Body.Ttl, tx.Body.TxMint, tx.Body.TxDonation = 1000, mint, don
		for i := 0; i < r.Nprop; i++ {
			tx.Body.TxProposalProcedures = append(tx.Body.TxProposalProcedures, conway.ConwayProposalProcedure{
				PPDeposit: gov, PPRewardAccount: propAddr, PPAnchor: anchor,
				PPGovAction: conway.ConwayGovAction{Type: uint(common.GovActionTypeInfo),
					Action: &common.InfoGovAction{Type: uint(common.GovActionTypeInfo)}}})
		}
		pp := mockledger.NewMockConwayProtocolParams()
		pp.KeyDeposit, pp.PoolDeposit, pp.DRepDeposit, pp.GovActionDeposit = uint(key), uint(pool), drep, gov
		b.tx, b.pp = tx, &pp
	case "dijkstra":
		tx := &dijkstra.DijkstraTransaction{TxIsValid: isValid}
		tx.Body.TxInputs = conway.NewConwayTransactionInputSet(inputs)
		for _, o := range outs {
			tx.Body.TxOutputs = append(tx.Body.TxOutputs, *o.(*dijkstra.DijkstraTransactionOutput))
		}
		tx.Body.TxFee, tx.Body.TxCertificates, tx.Body.TxWithdrawals = fee, certs, wds
		tx.Body.Ttl, tx.Body.TxMint, tx.Body.TxDonation = 1000, mint, don
		for i := 0; i < r.Nprop; i++ {
			tx.Body.TxProposalProcedures = append(tx.Body.TxProposalProcedures, dijkstra.DijkstraProposalProcedure{
				PPDeposit: gov, PPRewardAccount: propAddr, PPAnchor: anchor,
				PPGovAction: dijkstra.DijkstraGovAction{Type: uint(common.GovActionTypeInfo),
					Action: &common.InfoGovAction{Type: uint(common.GovActionTypeInfo)}}})
		}
		cpp := mockledger.NewMockConwayProtocolParams()
		cpp.KeyDeposit, cpp.PoolDeposit, cpp.DRepDeposit, cpp.GovActionDeposit = uint(key), uint(pool), drep, gov
		b.tx, b.pp = tx, &dijkstra.DijkstraProtocolParameters{ConwayProtocolParameters: cpp}
	}
	if b.tx.IsValid() != isValid {
		return nil, fmt.Errorf("era %s: built with is_valid = %v but IsValid() = %v", era, isValid, b.tx.IsValid())
	}
	b.dump["is_valid"] = isValid
	b.dump["utxo_output_eras"] = b.utxoEras
	b.dump["policy_a_b"] = []string{fmt.Sprintf("%x", v.policy[0].Bytes()), fmt.Sprintf("%x", v.policy[1].Bytes())}
	b.dump["asset_name_a_b"] = []string{fmt.Sprintf("%x", v.name[0]), fmt.Sprintf("%x", v.name[1])}
	b.dump["coin_multiplier"] = v.mc.String()
	b.dump["asset_multiplier"] = v.ma.String()
	b.dump["decoy_asset"] = decoy
	b.dump["explicit_zero_quantities"] = v.zeroes
	return b, nil
}

// wire sends the transaction through its CBOR encoding and the era's decoder,
// so that the rule is also run on a transaction as received from the network.
func wire(era string, tx common.Transaction) (common.Transaction, error) {
	data, err := cbor.Encode(tx)
	if err != nil {
		return nil, err
	}
	switch era {
	case "shelley":
		return shelley.NewShelleyTransactionFromCbor(data)
	case "allegra":
		return allegra.NewAllegraTransactionFromCbor(data)
	case "mary":
		return mary.NewMaryTransactionFromCbor(data)
	case "alonzo":
		return alonzo.NewAlonzoTransactionFromCbor(data)
	case "babbage":
		return babbage.NewBabbageTransactionFromCbor(data)
	case "conway":
		return conway.NewConwayTransactionFromCbor(data)
	case "dijkstra":
		return dijkstra.NewDijkstraTransactionFromCbor(data)
	}
	return nil, fmt.Errorf("unknown era %q", era)
}

type eraRule struct {
	fn    common.UtxoValidationRuleFunc
	rules []common.UtxoValidationRuleFunc
}

var rules = map[string]eraRule{
	"shelley":  {shelley.UtxoValidateValueNotConservedUtxo, shelley.UtxoValidationRules},
	"allegra":  {allegra.UtxoValidateValueNotConservedUtxo, allegra.UtxoValidationRules},
	"mary":     {mary.UtxoValidateValueNotConservedUtxo, mary.UtxoValidationRules},
	"alonzo":   {alonzo.UtxoValidateValueNotConservedUtxo, alonzo.UtxoValidationRules},
	"babbage":  {babbage.UtxoValidateValueNotConservedUtxo, babbage.UtxoValidationRules},
	"conway":   {conway.UtxoValidateValueNotConservedUtxo, conway.UtxoValidationRules},
	"dijkstra": {dijkstra.UtxoValidateValueNotConservedUtxo, dijkstra.UtxoValidationRules},
}

func inList(fn common.UtxoValidationRuleFunc, list []common.UtxoValidationRuleFunc) bool {
	p := reflect.ValueOf(fn).Pointer()
	for _, f := range list {
		if reflect.ValueOf(f).Pointer() == p {
			return true
		}
	}
	return false
}

func errKind(err error) string {
	if err == nil {
		return "accepted"
	}
	var vnc shelley.ValueNotConservedUtxoError
	if errors.As(err, &vnc) {
		return "ValueNotConservedUtxoError"
	}
	return fmt.Sprintf("%T", err)
}

// devClass names the input class on which the unchanged tree is known to
// deviate (F-C27-b: a non-zero mint under the all-zero policy id); its
// disagreements are reported with a per-era cap so that they cannot crowd any
// other disagreement out of the reporter's budget. "" = no such class.
func devClass(r *row, v *variant) string {
	if (v.pol == "zero" || v.pol == "zeroname") && (r.Mint != 0 || r.Mintb != 0) {
		return "zeropolicy"
	}
	return ""
}

var perClassCap = 6

func flagNote(p2 bool) string {
	if p2 {
		return " [is_valid = false: the balance is checked all the same]"
	}
	return ""
}

func main() {
	rep := vh.NewReporter()
	if len(os.Args) < 2 {
		rep.Dead("usage: c27 cases.ndjson")
	}
	rows, err := vh.ReadNDJSON[row](os.Args[1])
	if err != nil || len(rows) == 0 {
		rep.Dead("cases: %v (%d rows)", err, len(rows))
	}
	g := &gen{rng: rand.New(rand.NewSource(vh.Seed()*7919 + 27))}

	// the rule must be part of the era's rule list, otherwise block validation never runs it
	seenEra := map[string]bool{}
	for _, r := range rows {
		seenEra[r.Era] = true
	}
	for _, era := range eraOrder {
		if !seenEra[era] {
			continue
		}
		er, ok := rules[era]
		if !ok {
			rep.Dead("no rule for era %s", era)
		}
		rep.Case("rulelist:era="+era, true)
		if !inList(er.fn, er.rules) {
			rep.Disagree("rulelist:era="+era,
				"UtxoValidateValueNotConservedUtxo is not in "+era+".UtxoValidationRules", map[string]any{"era": era})
		}
		// baseline: the harness can build an accepted and a rejected transaction for this era
		type probe struct {
			out   int64
			p2    bool
			rereg bool
		}
		// the last two: the same amounts with a certificate that re-registers a pool whose
		// retirement is announced (no deposit: same answers)
		probes := []probe{{2, false, false}, {1, false, false}, {2, false, true}, {1, false, true}}
		if hasFlag(era) {
			// the first two flagged is_valid = false: same answers
			probes = append(probes, probe{2, true, false}, probe{1, true, false})
		}
		for _, pr := range probes {
			out := pr.out
			base := row{Era: era, Ins: []ent{{C: 3}}, Outs: []ent{{C: out}}, Fee: 1, P2: pr.p2}
			base.PP.Key, base.PP.Pool = 2, 3
			if eraIdx(era) >= 5 {
				base.PP.Drep, base.PP.Gov = 2, 3
			}
			if pr.rereg {
				base.Certs = []string{"poolreg_old"}
				base.Pools = map[string]string{"A": "unknown", "B": "unknown", "old": "retiring"}
			}
			v := g.variants(&base, 0)[0]
			bt, err := g.build(&base, &v)
			if err != nil {
				rep.Dead("baseline %s: %v", era, err)
			}
			key := fmt.Sprintf("baseline:era=%s:out=%d", era, out)
			if pr.p2 {
				key += ":p2invalid"
			}
			if pr.rereg {
				key += ":rereg_retiring"
			}
			// replayable like a generated case (bin/check C27 --replay): the probe's two
			// amounts are fixed here, in 3 = out 2 + fee 1 balances and out 1 does not
			base.Var, base.Accept, base.P2Wire = "baseline", out == 2, pr.p2 && era != "dijkstra"
			base.CC, base.PC = 3, out+1
			breplay := map[string]any{"case": base, "key": key}
			rep.Guard(key, breplay, func() {
				err := er.fn(bt.tx, 0, bt.ls, bt.pp)
				if k := errKind(err); k != "accepted" && k != "ValueNotConservedUtxoError" {
					rep.Dead("baseline %s: rule answered %s (%v): harness does not fit the rule", era, k, err)
				}
				rep.Case(key, true)
				if (err == nil) != (out == 2) {
					rep.Disagree(key, fmt.Sprintf("in 3 = out %d + fee 1%s%s: rule says %s", out, flagNote(pr.p2),
						map[bool]string{true: " [re-registration of a registered pool with an announced retirement: no deposit]"}[pr.rereg],
						errKind(err)), breplay)
				}
			})
		}
	}

	if n, err := strconv.Atoi(os.Getenv("C27_CLASS_CAP")); err == nil && n > 0 {
		perClassCap = n // development aid: list more of the known deviation classes
	}
	stats := map[string]int{}
	classSeen := map[string]int{}
	suppressed := map[string]int{}
	wireSkipped := map[string]int{}
	wireErr := map[string]string{}
	otherErrs := map[string]int{}
	sampled := map[string]bool{}
	flagged := map[string]int{}
	flaggedNoWire := map[string]int{}
	reregRetiring := map[string]int{}
	for idx := range rows {
		r := &rows[idx]
		er := rules[r.Era]
		ck := r.caseKey()
		nontrivial := len(r.Certs) > 0 || r.usesAssets() || len(r.Wds) > 0 || r.Don > 0 || r.Nprop > 0
		for _, v := range g.variants(r, idx) {
			if v.sc == 1 && v.pol != "na" && !r.usesAssets() && !v.zeroes {
				// policy classes only matter when an asset moves
				v.pol = "unused"
			}
			if v.nm != "na" && !r.usesAssets() && !v.zeroes {
				v.nm = "unused"
			}
			key := fmt.Sprintf("%s:nm=%s:sc=%d:pol=%s", ck, v.nm, v.sc, v.pol)
			if v.zeroes {
				key += ":zeroes"
			}
			if r.P2 {
				key += ":p2invalid"
			}
			bt, err := g.build(r, &v)
			if err != nil {
				rep.Dead("cannot build %s: %v", key, err)
			}
			replay := map[string]any{"case": r, "variant": bt.dump, "key": key}
			run := func(key string, tx common.Transaction) {
				rep.Guard(key, replay, func() {
					err := er.fn(tx, 0, bt.ls, bt.pp)
					rep.Case(key, nontrivial)
					if r.Merged && !r.Accept {
						stats["mergeonly:"+v.nm]++
					}
					k := errKind(err)
					if r.Accept {
						stats["spec_accept"]++
					} else {
						stats["spec_reject"]++
					}
					if r.poolState("old") == "retiring" {
						for _, k := range r.Certs {
							if k == "poolreg_old" {
								reregRetiring[r.Era]++
								break
							}
						}
					}
					if r.P2 {
						flagged[r.Era+":spec_"+map[bool]string{true: "accept", false: "reject"}[r.Accept]]++
					}
					if k != "accepted" && k != "ValueNotConservedUtxoError" {
						otherErrs[k]++
					}
					if (err == nil) == r.Accept {
						return
					}
					want := "reject"
					if r.Accept {
						want = "accept"
					}
					desc := fmt.Sprintf("%s: reference consumed coin/a/b %d/%d/%d, produced %d/%d/%d => %s; rule: %s",
						r.Era, r.CC, r.CA, r.CB, r.PC, r.PA, r.PB, want, k)
					if r.Merged && !r.Accept {
						desc += " [balances only if assets a and b are confused]"
					}
					desc += flagNote(r.P2)
					if err != nil {
						desc += " (" + err.Error() + ")"
					}
					if cl := devClass(r, &v); cl != "" {
						ck := r.Era + ":" + cl
						classSeen[ck]++
						if classSeen[ck] > perClassCap {
							suppressed[ck]++
							return
						}
					}
					rep.Disagree(key, desc, replay)
				})
			}
			run(key, bt.tx)
			if v.sc == 1 && r.P2 && !r.P2Wire {
				// the era's transaction encoding cannot say is_valid = false (Dijkstra:
				// the block names its invalid transactions); nothing to round-trip
				flaggedNoWire[r.Era]++
			} else if v.sc == 1 {
				// the same transaction after an encode/decode round trip
				wtx, err := wire(r.Era, bt.tx)
				if err == nil && wtx.IsValid() == r.P2 {
					err = fmt.Errorf("is_valid = %v became %v in the round trip", !r.P2, wtx.IsValid())
				}
				if err != nil {
					wireSkipped[r.Era]++
					if wireSkipped[r.Era] == 1 {
						wireErr[r.Era] = key + ": " + err.Error()
					}
				} else {
					stats["wire"]++
					run(key+":wire", wtx)
				}
			}
		}
		sk := r.Era + "/" + r.Var[:min(len(r.Var), 3)]
		if r.P2 {
			sk = "p2invalid" // one flagged sample
		}
		if !sampled[sk] && len(r.Certs) >= 2 && (len(sampled) < 5 || r.P2) {
			sampled[sk] = true
			rep.Sample(map[string]any{"key": ck, "var": r.Var, "spec_accept": r.Accept, "is_valid": !r.P2,
				"consumed": []int64{r.CC, r.CA, r.CB}, "produced": []int64{r.PC, r.PA, r.PB}})
		}
	}
	rep.Extra["c27_spec_accept_evaluations"] = stats["spec_accept"]
	rep.Extra["c27_spec_reject_evaluations"] = stats["spec_reject"]
	rep.Extra["c27_rejections_with_other_error_types"] = otherErrs
	rep.Extra["c27_disagreements_not_listed_beyond_cap_per_era_and_class"] = suppressed
	mo := map[string]int{}
	for k, n := range stats {
		if strings.HasPrefix(k, "mergeonly:") {
			mo[strings.TrimPrefix(k, "mergeonly:")] = n
		}
	}
	rep.Extra["c27_evaluations_balancing_only_if_two_assets_are_confused_by_name_class"] = mo
	rep.Extra["c27_wire_roundtrip_evaluations"] = stats["wire"]
	rep.Extra["c27_wire_roundtrip_not_possible"] = wireSkipped
	rep.Extra["c27_wire_roundtrip_first_error"] = wireErr
	rep.Extra["c27_flagged_is_valid_false_evaluations"] = flagged
	rep.Extra["c27_evaluations_reregistering_a_retiring_pool"] = reregRetiring
	rep.Extra["c27_flagged_without_wire_roundtrip_flag_not_encodable"] = flaggedNoWire
	rep.Extra["c27_not_judged"] = []string{
		"Dijkstra direct deposits / sub-transactions (property silent; left empty)",
		"certificates whose carried deposit differs from the protocol parameter (other rules decide)",
		"zero deposit parameters (Conway rule answers InvalidCertificateDepositError, not a balance verdict)",
		"the collateral balance of phase-2 invalid transactions (not this property; consumed = produced is judged for them)",
	}
	rep.Finish()
}
