package hs

import (
	"fmt"
	"hash/fnv"
	"sort"
	"strings"
	"sync"

	"github.com/blinklabs-io/gouroboros/protocol"
)

// ---------------------------------------------------------------------------
// rows written by spec/net/Handshake.tla

type Reply struct {
	T      string `json:"t"` // accept | refuse | queryreply
	V      int    `json:"v"`
	Reason string `json:"reason"` // mismatch | refused | decodeerror
	Vs     []int  `json:"vs"`
	Tab    []int  `json:"tab"`
	Format string `json:"format"` // A | B | X | junk | bad | none
	Magic  int    `json:"magic"`
}

type CRes struct {
	Kind string `json:"kind"` // ok | error | mismatch | refused | decodeerror | query
	V    int    `json:"v"`
	Vs   []int  `json:"vs"`
	Tab  []int  `json:"tab"`
}

type SRes struct {
	Kind string `json:"kind"` // ok | none
	V    int    `json:"v"`
}

type Row struct {
	Mode    string   `json:"mode"`
	Cli     []int    `json:"cli"` // per abstract version 1..W: 0 = absent, else abstract magic
	Snt     []int    `json:"snt"` // the abstract versions in the ProposeVersions message (absent in old replays: all of Cli)
	Srv     []int    `json:"srv"`
	K       int      `json:"k"` // format threshold (0 = unconstrained)
	Qf      bool     `json:"qf"`
	Fl      []bool   `json:"fl"` // cd cp sd sp sq
	FlModel bool     `json:"flmodel"`
	Asked   bool     `json:"asked"`
	Reply   Reply    `json:"reply"`
	Why     []string `json:"why"`
	Cres    CRes     `json:"cres"`
	Sres    SRes     `json:"sres"`
}

func Dom(t []int) []int {
	var out []int
	for i, m := range t {
		if m != 0 {
			out = append(out, i+1)
		}
	}
	return out
}

func tabString(t []int) string {
	parts := make([]string, 0, len(t))
	for i, m := range t {
		if m != 0 {
			parts = append(parts, fmt.Sprintf("%d/m%d", i+1, m))
		}
	}
	return "{" + strings.Join(parts, ",") + "}"
}

// Sent is the set of abstract versions the initiator put on the wire in this
// run of the specification (ascending).
func (r *Row) Sent() []int {
	if r.Snt == nil {
		return Dom(r.Cli)
	}
	out := append([]int{}, r.Snt...)
	sort.Ints(out)
	return out
}

// SentAll says that the run's proposal is the whole configured table.
func (r *Row) SentAll() bool { return fmt.Sprint(r.Sent()) == fmt.Sprint(append([]int{}, Dom(r.Cli)...)) }

// SentKey names a sent set, e.g. "{2,3}".
func SentKey(sent []int) string {
	parts := make([]string, len(sent))
	for i, a := range sent {
		parts[i] = fmt.Sprint(a)
	}
	return "{" + strings.Join(parts, ",") + "}"
}

// CaseKey names the abstract case (never contains seeded values).  A run in
// which the proposal is the configured table keeps the key it always had; a
// run in which only a part of the table was sent names that part.
func (r *Row) CaseKey() string {
	key := r.configKey()
	if !r.SentAll() {
		key += ":sent=" + SentKey(r.Sent())
	}
	return key
}

// ConfigKey names the configuration of the case (everything but what was sent).
func (r *Row) ConfigKey() string { return r.configKey() }

func (r *Row) configKey() string {
	q := "noquery"
	if r.Qf {
		q = "query"
	}
	key := fmt.Sprintf("cli=%s:srv=%s:k=%d:%s", tabString(r.Cli), tabString(r.Srv), r.K, q)
	if r.FlModel {
		key += ":fl="
		for _, f := range r.Fl {
			if f {
				key += "1"
			} else {
				key += "0"
			}
		}
	}
	return key
}

func (r *Row) ReplyKey() string {
	switch r.Reply.T {
	case "accept":
		return fmt.Sprintf("accept(v=%d,%s,m%d)", r.Reply.V, r.Reply.Format, r.Reply.Magic)
	case "refuse":
		if r.Reply.Reason == "mismatch" {
			return fmt.Sprintf("refuse(mismatch,%v)", r.Reply.Vs)
		}
		return fmt.Sprintf("refuse(%s,v=%d)", r.Reply.Reason, r.Reply.V)
	}
	return fmt.Sprintf("queryreply(%s)", tabString(r.Reply.Tab))
}

// Mix derives a reproducible pseudo-random number from the run seed and labels.
func Mix(seed int64, parts ...any) uint64 {
	h := fnv.New64a()
	fmt.Fprintf(h, "%d", seed)
	for _, p := range parts {
		fmt.Fprintf(h, "|%v", p)
	}
	x := h.Sum64()
	x ^= x >> 33
	x *= 0xff51afd7ed558ccd
	x ^= x >> 33
	return x
}

// ---------------------------------------------------------------------------
// the real version tables

type Table struct {
	Name     string
	Mode     protocol.ProtocolMode
	Versions []uint16 // ascending, as the library lists them
	carries  map[uint16]bool
	gen      func(magic uint32, d, p, q bool) protocol.ProtocolVersionMap
	mu       sync.Mutex
	cache    map[string]protocol.ProtocolVersionMap
	subsets  map[int][][]uint16
	// raw data of this table's two formats and of a foreign one
	FormatA, FormatB, FormatX func(magic uint32, d bool, ps uint64, q bool) []byte
	Foreign                   []uint16 // versions of other tables whose decoder takes FormatX
}

// Carries reports whether the version's data format carries the query flag
// (format "B" of the specification), as observed on the data the library
// itself generates with the flag set.
func (t *Table) Carries(v uint16) bool { return t.carries[v] }

// Entry is the version data the library generates for (version, magic, flags).
func (t *Table) Entry(v uint16, magic uint32, d, p, q bool) protocol.VersionData {
	key := fmt.Sprintf("%d/%v/%v/%v", magic, d, p, q)
	t.mu.Lock()
	defer t.mu.Unlock()
	m, ok := t.cache[key]
	if !ok {
		m = t.gen(magic, d, p, q)
		t.cache[key] = m
	}
	return m[v]
}

func fU(magic uint32, d bool, ps uint64, q bool) []byte    { return DataU(magic) }
func fUBd(magic uint32, d bool, ps uint64, q bool) []byte  { return DataUB(magic, d) }
func fUBq(magic uint32, d bool, ps uint64, q bool) []byte  { return DataUB(magic, q) }
func fUBUB(magic uint32, d bool, ps uint64, q bool) []byte { return DataUBUB(magic, d, ps, q) }

// Tables builds the four tables from the library; it returns an error text if
// the library's own tables are not usable as a baseline.
func Tables() ([]*Table, string) {
	ntn := &Table{Name: "ntn", Mode: protocol.ProtocolModeNodeToNode, Versions: protocol.GetProtocolVersionsNtN(),
		gen: func(m uint32, d, p, q bool) protocol.ProtocolVersionMap {
			return protocol.GetProtocolVersionMap(protocol.ProtocolModeNodeToNode, m, d, p, q)
		},
		FormatA: fUBd, FormatB: fUBUB, FormatX: fU}
	ntc := &Table{Name: "ntc", Mode: protocol.ProtocolModeNodeToClient, Versions: protocol.GetProtocolVersionsNtC(),
		gen: func(m uint32, d, p, q bool) protocol.ProtocolVersionMap {
			return protocol.GetProtocolVersionMap(protocol.ProtocolModeNodeToClient, m, d, p, q)
		},
		FormatA: fU, FormatB: fUBq, FormatX: fUBUB}
	dmqn := &Table{Name: "dmqntn", Mode: protocol.ProtocolModeNodeToNode, Versions: protocol.GetProtocolVersionsDMQNtN(),
		gen: func(m uint32, d, p, q bool) protocol.ProtocolVersionMap {
			return protocol.GetProtocolVersionMapDMQNtN(m, d, p, q)
		},
		FormatA: fUBd, FormatB: fUBUB, FormatX: fU}
	dmqc := &Table{Name: "dmqntc", Mode: protocol.ProtocolModeNodeToClient, Versions: protocol.GetProtocolVersionsDMQNtC(),
		gen: func(m uint32, d, p, q bool) protocol.ProtocolVersionMap {
			return protocol.GetProtocolVersionMapDMQNtC(m, q)
		},
		FormatA: fU, FormatB: fUBq, FormatX: fUBUB}
	all := []*Table{ntn, ntc, dmqn, dmqc}
	for _, t := range all {
		t.cache = map[string]protocol.ProtocolVersionMap{}
		t.subsets = map[int][][]uint16{}
		t.carries = map[uint16]bool{}
		if len(t.Versions) == 0 {
			return nil, "the library lists no versions for table " + t.Name
		}
		if !sort.SliceIsSorted(t.Versions, func(i, j int) bool { return t.Versions[i] < t.Versions[j] }) {
			return nil, "version list of " + t.Name + " is not ascending (C20)"
		}
		withQ := t.gen(7, false, false, true)
		sawCarry := false
		for _, v := range t.Versions {
			d, ok := withQ[v]
			if !ok || d == nil {
				return nil, fmt.Sprintf("the library generates no version data for %s version %d", t.Name, v)
			}
			if protocol.GetProtocolVersion(v).NewVersionDataFromCborFunc == nil {
				return nil, fmt.Sprintf("%s version %d has no decoder", t.Name, v)
			}
			t.carries[v] = d.Query()
			if sawCarry && !t.carries[v] {
				return nil, fmt.Sprintf("%s: version %d does not carry the query flag although a lower one does (C20)", t.Name, v)
			}
			sawCarry = sawCarry || t.carries[v]
		}
	}
	// versions of another table whose decoder takes this table's foreign format
	for _, v := range ntc.Versions {
		if !ntc.carries[v] {
			ntn.Foreign = append(ntn.Foreign, v)
			dmqn.Foreign = append(dmqn.Foreign, v)
		}
	}
	for _, v := range ntn.Versions {
		if ntn.carries[v] {
			ntc.Foreign = append(ntc.Foreign, v)
			dmqc.Foreign = append(dmqc.Foreign, v)
		}
	}
	ntc.Foreign = append(ntc.Foreign, dmqn.Versions...)
	for _, t := range all {
		if len(t.Foreign) == 0 {
			return nil, "no foreign version for table " + t.Name
		}
	}
	return all, ""
}

func (t *Table) subsetsOf(n int) [][]uint16 {
	t.mu.Lock()
	defer t.mu.Unlock()
	if s, ok := t.subsets[n]; ok {
		return s
	}
	var out [][]uint16
	var rec func(start int, cur []uint16)
	rec = func(start int, cur []uint16) {
		if len(cur) == n {
			out = append(out, append([]uint16(nil), cur...))
			return
		}
		for i := start; i < len(t.Versions); i++ {
			rec(i+1, append(cur, t.Versions[i]))
		}
	}
	rec(0, nil)
	t.subsets[n] = out
	return out
}

// Concrete maps the abstract versions `used` (ascending) monotonically into
// the table.  constrained[u] = true means that the format of u matters in the
// case: its image must carry the query flag iff u >= k (k = 0: nothing is
// constrained).  pick selects among the admissible injections; half of the
// picks prefer a contiguous window of the table when one is admissible.
// Returns nil if the table cannot represent the case.
func (t *Table) Concrete(used []int, constrained map[int]bool, k int, pick uint64) map[int]uint16 {
	n := len(used)
	if n > len(t.Versions) {
		return nil
	}
	if n == 0 {
		return map[int]uint16{}
	}
	var adm, contiguous [][]uint16
	for _, s := range t.subsetsOf(n) {
		ok := true
		for i, u := range used {
			if k != 0 && constrained[u] && t.carries[s[i]] != (u >= k) {
				ok = false
				break
			}
		}
		if !ok {
			continue
		}
		adm = append(adm, s)
		// contiguous in the table's own list, and the abstract versions contiguous too: a slid window
		if idx := t.index(s[0]); idx+n <= len(t.Versions) && t.Versions[idx+n-1] == s[n-1] && used[n-1]-used[0] == n-1 {
			contiguous = append(contiguous, s)
		}
	}
	if len(adm) == 0 {
		return nil
	}
	from := adm
	if len(contiguous) > 0 && pick&1 == 0 {
		from = contiguous
	}
	s := from[(pick>>1)%uint64(len(from))]
	out := map[int]uint16{}
	for i, u := range used {
		out[u] = s[i]
	}
	return out
}

func (t *Table) index(v uint16) int {
	for i, x := range t.Versions {
		if x == v {
			return i
		}
	}
	return -1
}

// MagicPool holds the concrete network magics abstract magics are drawn from
// (extremes included; 0 is a legal uint32 on the wire).
var MagicPool = []uint32{0, 1, 2, 42, 764824073, 1097911063, 0x7fffffff, 0x80000000, 0xfffffffe, 0xffffffff, 3141592, 2912307721}

// Magics returns two different concrete magics for abstract magics 1 and 2.
func Magics(pick uint64, nonzero bool) [3]uint32 {
	pool := MagicPool
	if nonzero {
		pool = pool[1:]
	}
	a := pick % uint64(len(pool))
	b := (a + 1 + (pick>>8)%uint64(len(pool)-1)) % uint64(len(pool))
	return [3]uint32{0, pool[a], pool[b]}
}

// UnknownVersions lists version numbers for which the library has no decoder.
func UnknownVersions() []uint16 {
	var out []uint16
	for _, v := range []uint16{0, 3, 6, 16, 17, 100, 0x0fff, 0x1000, 0x1002, 0x7fff, 0x8000, 0x8008, 0x8016, 0xfffe, 0xffff} {
		if protocol.GetProtocolVersion(v).NewVersionDataFromCborFunc == nil {
			out = append(out, v)
		}
	}
	return out
}

// SameData compares version data through the accessors (what the handshake's
// users can observe).
func SameData(a, b protocol.VersionData) bool {
	if a == nil || b == nil {
		return a == nil && b == nil
	}
	return a.NetworkMagic() == b.NetworkMagic() && a.DiffusionMode() == b.DiffusionMode() &&
		a.PeerSharing() == b.PeerSharing() && a.Query() == b.Query()
}

// ---------------------------------------------------------------------------
// Limiter bounds the number of disagreements a driver reports per class (one
// replay file is written per reported disagreement); everything is counted.

type Limiter struct {
	mu     sync.Mutex
	Max    int
	Counts map[string]int
}

func NewLimiter(max int) *Limiter { return &Limiter{Max: max, Counts: map[string]int{}} }

// Take counts one disagreement of the class and says whether to report it.
func (l *Limiter) Take(class string) bool {
	l.mu.Lock()
	defer l.mu.Unlock()
	l.Counts[class]++
	return l.Counts[class] <= l.Max
}
