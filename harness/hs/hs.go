// Package hs is shared by the C18 and C19 drivers: hand-built handshake CBOR,
// raw muxer-segment I/O for a scripted responder on the other end of a
// net.Pipe, and runners that execute the real handshake.Client /
// handshake.Server (and whole ouroboros.Connections) and classify what they
// observably did.  It never decides whether an outcome is right: the expected
// outcome comes from the TLC rows.
package hs

import (
	"encoding/binary"
	"errors"
	"fmt"
	"io"
	"net"
	"sort"
	"sync"
	"sync/atomic"
	"time"

	fcbor "github.com/fxamacker/cbor/v2"

	ouroboros "github.com/blinklabs-io/gouroboros"
	"github.com/blinklabs-io/gouroboros/connection"
	"github.com/blinklabs-io/gouroboros/muxer"
	"github.com/blinklabs-io/gouroboros/protocol"
	"github.com/blinklabs-io/gouroboros/protocol/handshake"
)

// ---------------------------------------------------------------------------
// addresses (protocol options need a ConnectionId whose addresses are non-nil)

type Addr string

func (a Addr) Network() string { return "pipe" }
func (a Addr) String() string  { return string(a) }

func ConnId(local, remote string) connection.ConnectionId {
	return connection.ConnectionId{LocalAddr: Addr(local), RemoteAddr: Addr(remote)}
}

// ---------------------------------------------------------------------------
// hand-built CBOR (the scripted responder must be able to say anything)

func head(major byte, n uint64) []byte {
	m := major << 5
	switch {
	case n < 24:
		return []byte{m | byte(n)}
	case n <= 0xff:
		return []byte{m | 24, byte(n)}
	case n <= 0xffff:
		return []byte{m | 25, byte(n >> 8), byte(n)}
	case n <= 0xffffffff:
		b := []byte{m | 26, 0, 0, 0, 0}
		binary.BigEndian.PutUint32(b[1:], uint32(n))
		return b
	default:
		b := []byte{m | 27, 0, 0, 0, 0, 0, 0, 0, 0}
		binary.BigEndian.PutUint64(b[1:], n)
		return b
	}
}

func Uint(n uint64) []byte { return head(0, n) }
func Bool(b bool) []byte {
	if b {
		return []byte{0xf5}
	}
	return []byte{0xf4}
}
func Text(s string) []byte { return append(head(3, uint64(len(s))), s...) }
func Array(items ...[]byte) []byte {
	out := head(4, uint64(len(items)))
	for _, it := range items {
		out = append(out, it...)
	}
	return out
}

// Map encodes entries in ascending key order.
func Map(m map[uint16][]byte) []byte {
	keys := make([]int, 0, len(m))
	for k := range m {
		keys = append(keys, int(k))
	}
	sort.Ints(keys)
	out := head(5, uint64(len(m)))
	for _, k := range keys {
		out = append(out, Uint(uint64(k))...)
		out = append(out, m[uint16(k)]...)
	}
	return out
}

// Wire shapes of version data (handshake CDDL):
//
//	"u"    magic                                    node-to-client v9..v14
//	"ub"   [magic, bool]                            node-to-client v15.. (query), node-to-node v7..v10 (diffusion), DMQ n2c
//	"ubub" [magic, diffusion, peerSharing, query]   node-to-node v11.., DMQ n2n
func DataU(magic uint32) []byte            { return Uint(uint64(magic)) }
func DataUB(magic uint32, b bool) []byte   { return Array(Uint(uint64(magic)), Bool(b)) }
func DataUBUB(magic uint32, d bool, ps uint64, q bool) []byte {
	return Array(Uint(uint64(magic)), Bool(d), Uint(ps), Bool(q))
}

func MsgAccept(version uint16, data []byte) []byte {
	return Array(Uint(handshake.MessageTypeAcceptVersion), Uint(uint64(version)), data)
}
func MsgRefuseMismatch(versions []uint16) []byte {
	items := make([][]byte, len(versions))
	for i, v := range versions {
		items[i] = Uint(uint64(v))
	}
	return Array(Uint(handshake.MessageTypeRefuse), Array(Uint(handshake.RefuseReasonVersionMismatch), Array(items...)))
}
func MsgRefuseDecodeError(version uint16, msg string) []byte {
	return Array(Uint(handshake.MessageTypeRefuse), Array(Uint(handshake.RefuseReasonDecodeError), Uint(uint64(version)), Text(msg)))
}
func MsgRefuseRefused(version uint16, msg string) []byte {
	return Array(Uint(handshake.MessageTypeRefuse), Array(Uint(handshake.RefuseReasonRefused), Uint(uint64(version)), Text(msg)))
}
func MsgQueryReply(table map[uint16][]byte) []byte {
	return Array(Uint(handshake.MessageTypeQueryReply), Map(table))
}

// ---------------------------------------------------------------------------
// raw muxer segments: 4-byte timestamp, 2-byte protocol id (top bit = sent by
// the responder), 2-byte payload length, payload

func ReadSegment(c net.Conn) (protoId uint16, fromResponder bool, payload []byte, err error) {
	var h [8]byte
	if _, err = io.ReadFull(c, h[:]); err != nil {
		return
	}
	id := binary.BigEndian.Uint16(h[4:6])
	n := binary.BigEndian.Uint16(h[6:8])
	payload = make([]byte, n)
	if _, err = io.ReadFull(c, payload); err != nil {
		return
	}
	return id & 0x7fff, id&0x8000 != 0, payload, nil
}

func WriteSegment(c net.Conn, protoId uint16, fromResponder bool, payload []byte) error {
	if len(payload) > 0xffff {
		return errors.New("payload too long for one segment")
	}
	h := make([]byte, 8, 8+len(payload))
	binary.BigEndian.PutUint32(h[0:4], uint32(time.Now().UnixNano()&0xffffffff))
	id := protoId
	if fromResponder {
		id |= 0x8000
	}
	binary.BigEndian.PutUint16(h[4:6], id)
	binary.BigEndian.PutUint16(h[6:8], uint16(len(payload)))
	_, err := c.Write(append(h, payload...))
	return err
}

// Proposal is what the scripted responder read from the wire.
type Proposal struct {
	Versions []uint16            // ascending
	Data     map[uint16][]byte   // raw version data per version
}

// Has says whether the version was in the proposal.
func (p *Proposal) Has(v uint16) bool {
	_, ok := p.Data[v]
	return ok
}

// Magic reads the network magic out of the raw version data proposed for v
// (every wire shape of the handshake holds it first); false if there is none.
func (p *Proposal) Magic(v uint16) (uint32, bool) {
	d, ok := p.Data[v]
	if !ok {
		return 0, false
	}
	var m uint64
	if err := fcbor.Unmarshal(d, &m); err != nil {
		var arr []fcbor.RawMessage
		if err := fcbor.Unmarshal(d, &arr); err != nil || len(arr) == 0 {
			return 0, false
		}
		if err := fcbor.Unmarshal(arr[0], &m); err != nil {
			return 0, false
		}
	}
	if m > 0xffffffff {
		return 0, false
	}
	return uint32(m), true
}

func decodeProposal(payload []byte) (*Proposal, error) {
	var msg []fcbor.RawMessage
	if err := fcbor.Unmarshal(payload, &msg); err != nil {
		return nil, fmt.Errorf("proposal is not a CBOR array: %w", err)
	}
	if len(msg) != 2 {
		return nil, fmt.Errorf("proposal has %d elements", len(msg))
	}
	var tag uint64
	if err := fcbor.Unmarshal(msg[0], &tag); err != nil || tag != handshake.MessageTypeProposeVersions {
		return nil, fmt.Errorf("first message of the initiator is not ProposeVersions (tag %d, %v)", tag, err)
	}
	var tab map[uint16]fcbor.RawMessage
	if err := fcbor.Unmarshal(msg[1], &tab); err != nil {
		return nil, fmt.Errorf("proposal table: %w", err)
	}
	p := &Proposal{Data: map[uint16][]byte{}}
	for v, d := range tab {
		p.Versions = append(p.Versions, v)
		p.Data[v] = []byte(d)
	}
	sort.Slice(p.Versions, func(i, j int) bool { return p.Versions[i] < p.Versions[j] })
	return p, nil
}

// ScriptedResponder is the adversarial peer: it reads the initiator's
// ProposeVersions segment from its end of the pipe and answers with the given
// payload (already CBOR) in one responder segment, then keeps the connection
// open until Close is called (so that a client that waits for more is seen to
// hang rather than to fail on EOF).
type ScriptedResponder struct {
	conn     net.Conn
	Proposal *Proposal
	Err      error
	done     chan struct{}
}

func StartScriptedResponder(conn net.Conn, reply func(*Proposal) []byte) *ScriptedResponder {
	r := &ScriptedResponder{conn: conn, done: make(chan struct{})}
	go func() {
		defer close(r.done)
		id, fromResp, payload, err := ReadSegment(conn)
		if err != nil {
			r.Err = fmt.Errorf("reading the proposal: %w", err)
			return
		}
		if id != handshake.ProtocolId || fromResp {
			r.Err = fmt.Errorf("first segment: protocol %d, responder flag %v", id, fromResp)
			return
		}
		p, err := decodeProposal(payload)
		if err != nil {
			r.Err = err
			return
		}
		r.Proposal = p
		if err := WriteSegment(conn, handshake.ProtocolId, true, reply(p)); err != nil {
			r.Err = fmt.Errorf("writing the reply: %w", err)
			return
		}
		// swallow whatever the initiator sends afterwards
		_, _ = io.Copy(io.Discard, conn)
	}()
	return r
}

func (r *ScriptedResponder) Close() {
	_ = r.conn.Close()
	<-r.done
}

// Wait blocks until the responder has written its reply (or failed), at most d.
func (r *ScriptedResponder) Wait(d time.Duration) bool {
	select {
	case <-r.done:
		return true
	case <-time.After(d):
		return false
	}
}

// ---------------------------------------------------------------------------
// what an endpoint observably did

type Outcome struct {
	Kind       string // "ok" | "mismatch" | "refused" | "decodeerror" | "query" | "error" | "hang"
	Version    uint16
	Data       protocol.VersionData        // ok: the peer's version data handed to FinishedFunc
	Versions   []uint16                    // mismatch: the refusal's version list, as reported
	QueryTable protocol.ProtocolVersionMap // query: the table handed to QueryReplyFunc
	Err        string
	Finished   bool // FinishedFunc was called
}

func (o Outcome) String() string {
	switch o.Kind {
	case "ok":
		return fmt.Sprintf("ok(v=%d, %s)", o.Version, DataString(o.Data))
	case "mismatch":
		return fmt.Sprintf("refused(version mismatch %v)", o.Versions)
	case "refused", "decodeerror":
		return fmt.Sprintf("%s(v=%d): %s", o.Kind, o.Version, o.Err)
	case "query":
		return fmt.Sprintf("query reply %v (finished=%v version=%d)", TableVersions(o.QueryTable), o.Finished, o.Version)
	}
	return o.Kind + ": " + o.Err
}

func DataString(d protocol.VersionData) string {
	if d == nil {
		return "nil"
	}
	return fmt.Sprintf("%T{magic=%d diffusion=%v peerSharing=%v query=%v}", d, d.NetworkMagic(), d.DiffusionMode(), d.PeerSharing(), d.Query())
}

func TableVersions(t protocol.ProtocolVersionMap) []uint16 {
	out := make([]uint16, 0, len(t))
	for v := range t {
		out = append(out, v)
	}
	sort.Slice(out, func(i, j int) bool { return out[i] < out[j] })
	return out
}

func classifyErr(err error) Outcome {
	var vm *handshake.VersionMismatchError
	var re *handshake.RefusedError
	var de *handshake.DecodeError
	switch {
	case errors.As(err, &vm):
		return Outcome{Kind: "mismatch", Versions: vm.SupportedVersions, Err: err.Error()}
	case errors.As(err, &re):
		return Outcome{Kind: "refused", Version: re.Version, Err: re.Message}
	case errors.As(err, &de):
		return Outcome{Kind: "decodeerror", Version: de.Version, Err: de.Message}
	}
	return Outcome{Kind: "error", Err: err.Error()}
}

// CountConn counts the Write calls an endpoint makes on its connection (one
// per muxer segment), so that "the reply was never put on the wire" can be told
// apart from "the peer was slow to read it".
type CountConn struct {
	net.Conn
	writes atomic.Int64
}

func (c *CountConn) Write(b []byte) (int, error) {
	c.writes.Add(1)
	return c.Conn.Write(b)
}

func (c *CountConn) Writes() int64 { return c.writes.Load() }

// Endpoint is one running handshake.Client or handshake.Server on a real muxer.
type Endpoint struct {
	conn     *CountConn
	mux      *muxer.Muxer
	proto    *protocol.Protocol
	errChan  chan error
	mu       sync.Mutex
	finished chan struct{}
	version  uint16
	data     protocol.VersionData
	query    protocol.ProtocolVersionMap
	gotQuery bool
}

func newEndpoint(conn net.Conn) *Endpoint {
	cc := &CountConn{Conn: conn}
	return &Endpoint{conn: cc, mux: muxer.New(cc), errChan: make(chan error, 10), finished: make(chan struct{})}
}

// Segments is the number of segments the endpoint has started to write.
func (e *Endpoint) Segments() int64 { return e.conn.Writes() }

// ProtocolDone is closed when the endpoint's send and receive loops have exited.
func (e *Endpoint) ProtocolDone() <-chan struct{} { return e.proto.DoneChan() }

func (e *Endpoint) config(vm protocol.ProtocolVersionMap) *handshake.Config {
	var once sync.Once
	cfg := handshake.NewConfig(
		handshake.WithProtocolVersionMap(vm),
		handshake.WithFinishedFunc(func(_ handshake.CallbackContext, v uint16, d protocol.VersionData) error {
			e.mu.Lock()
			e.version, e.data = v, d
			e.mu.Unlock()
			once.Do(func() { close(e.finished) })
			return nil
		}),
		handshake.WithQueryReplyFunc(func(_ handshake.CallbackContext, t protocol.ProtocolVersionMap) error {
			e.mu.Lock()
			e.query, e.gotQuery = t, true
			e.mu.Unlock()
			return nil
		}),
	)
	return &cfg
}

func (e *Endpoint) options(mode protocol.ProtocolMode, role protocol.ProtocolRole, name string) protocol.ProtocolOptions {
	return protocol.ProtocolOptions{
		ConnectionId: ConnId(name, name+"-peer"),
		Muxer:        e.mux,
		ErrorChan:    e.errChan,
		Mode:         mode,
		Role:         role,
	}
}

// StartClient starts the real handshake client with the given version table
// on conn (the same order of calls as Connection.setupConnection).
func StartClient(conn net.Conn, mode protocol.ProtocolMode, vm protocol.ProtocolVersionMap) *Endpoint {
	e := newEndpoint(conn)
	c := handshake.NewClient(e.options(mode, protocol.ProtocolRoleClient, "initiator"), e.config(vm))
	e.proto = c.Protocol
	traceRegister(e.proto)
	c.Start()
	e.mux.StartOnce()
	return e
}

// StartServer starts the real handshake server with the given version table.
func StartServer(conn net.Conn, mode protocol.ProtocolMode, vm protocol.ProtocolVersionMap) *Endpoint {
	e := newEndpoint(conn)
	s := handshake.NewServer(e.options(mode, protocol.ProtocolRoleServer, "responder"), e.config(vm))
	e.proto = s.Protocol
	traceRegister(e.proto)
	s.Start()
	e.mux.StartOnce()
	return e
}

// Await waits until the endpoint has finished (FinishedFunc), failed
// (protocol or muxer error) or the deadline passed ("hang").
func (e *Endpoint) Await(d time.Duration) Outcome {
	timer := time.NewTimer(d)
	defer timer.Stop()
	var o Outcome
	select {
	case <-e.finished:
		e.mu.Lock()
		if e.gotQuery {
			o = Outcome{Kind: "query", QueryTable: e.query, Version: e.version, Data: e.data, Finished: true}
		} else {
			o = Outcome{Kind: "ok", Version: e.version, Data: e.data, Finished: true}
		}
		e.mu.Unlock()
		// an error raised right after the callback (e.g. by the callback's caller) still counts
		select {
		case err := <-e.errChan:
			if err != nil {
				o2 := classifyErr(err)
				o2.Finished = true
				o2.Version, o2.Data = o.Version, o.Data
				if o.Kind == "query" {
					o2.QueryTable = o.QueryTable
				}
				o2.Err = "after FinishedFunc: " + err.Error()
				return o2
			}
		case <-time.After(0):
		}
		return o
	case err := <-e.errChan:
		o = classifyErr(err)
		e.mu.Lock()
		if e.gotQuery {
			// a server-side style "query then terminate" on the client would land here
			o.QueryTable = e.query
		}
		e.mu.Unlock()
		return o
	case err, ok := <-e.mux.ErrorChan():
		if !ok {
			return Outcome{Kind: "error", Err: "muxer stopped"}
		}
		return Outcome{Kind: "error", Err: "muxer: " + err.Error()}
	case <-timer.C:
		return Outcome{Kind: "hang", Err: fmt.Sprintf("no result after %s", d)}
	}
}

// NeverSent reports that the endpoint's send loop has exited without ever
// handing a segment to the muxer (only known with the verif hooks).
func (e *Endpoint) NeverSent() bool { return traceNeverSent(e.proto) }

// Stop tears the endpoint down and waits for its goroutines.
func (e *Endpoint) Stop() {
	defer traceForget(e.proto)
	e.proto.Stop()
	e.mux.Stop()
	t := time.NewTimer(30 * time.Second)
	defer t.Stop()
	for {
		select {
		case _, ok := <-e.mux.ErrorChan():
			if !ok {
				select {
				case <-e.proto.DoneChan():
				case <-t.C:
				}
				return
			}
		case <-t.C:
			return
		}
	}
}

// ---------------------------------------------------------------------------
// whole connections

type ConnOpts struct {
	Magic       uint32
	NtN         bool
	DMQ         bool
	FullDuplex  bool
	PeerSharing bool
	Query       bool
}

func (o ConnOpts) options(conn net.Conn, server bool) []ouroboros.ConnectionOptionFunc {
	opts := []ouroboros.ConnectionOptionFunc{
		ouroboros.WithConnection(conn),
		ouroboros.WithNetworkMagic(o.Magic),
		ouroboros.WithServer(server),
		ouroboros.WithFullDuplex(o.FullDuplex),
		ouroboros.WithPeerSharing(o.PeerSharing),
		ouroboros.WithQueryMode(o.Query),
	}
	if o.DMQ {
		opts = append(opts, ouroboros.WithDMQ(true))
	} else {
		opts = append(opts, ouroboros.WithNodeToNode(o.NtN))
	}
	return opts
}

type ConnResult struct {
	Outcome Outcome
	Conn    *ouroboros.Connection
}

// NewConn runs ouroboros.NewConnection (which performs the handshake) and
// classifies its result; "hang" if it has not returned after d.
func NewConn(conn net.Conn, server bool, o ConnOpts, d time.Duration) ConnResult {
	type res struct {
		c   *ouroboros.Connection
		err error
	}
	ch := make(chan res, 1)
	go func() {
		c, err := ouroboros.NewConnection(o.options(conn, server)...)
		ch <- res{c, err}
	}()
	select {
	case r := <-ch:
		if r.err != nil {
			return ConnResult{Outcome: classifyErr(r.err)}
		}
		v, data := r.c.ProtocolVersion()
		if t := r.c.QueryReplyVersionMap(); t != nil {
			return ConnResult{Outcome: Outcome{Kind: "query", QueryTable: t, Version: v, Data: data, Finished: true}, Conn: r.c}
		}
		return ConnResult{Outcome: Outcome{Kind: "ok", Version: v, Data: data, Finished: true}, Conn: r.c}
	case <-time.After(d):
		_ = conn.Close()
		return ConnResult{Outcome: Outcome{Kind: "hang", Err: fmt.Sprintf("NewConnection has not returned after %s", d)}}
	}
}

func (r ConnResult) Close() {
	if r.Conn != nil {
		done := make(chan struct{})
		go func() { _ = r.Conn.Close(); close(done) }()
		select {
		case <-done:
		case <-time.After(30 * time.Second):
		}
	}
}
