//go:build !verif

package hs

import "github.com/blinklabs-io/gouroboros/protocol"

const TraceAvailable = false

func traceRegister(p *protocol.Protocol)          {}
func traceForget(p *protocol.Protocol)            {}
func traceNeverSent(p *protocol.Protocol) bool    { return false }
