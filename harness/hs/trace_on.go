//go:build verif

package hs

import (
	"sync"

	"github.com/blinklabs-io/gouroboros/protocol"
	"github.com/blinklabs-io/gouroboros/protocol/handshake"
)

// With the verif hooks compiled in, the engine tells us when a handshake
// protocol instance hands a segment to the muxer ("SegOut") and when its send
// loop exits: a send loop that exits without a SegOut has certainly not put
// its reply on the wire.

type sendTrace struct {
	segOut   int
	sendExit bool
}

var (
	traceMu sync.Mutex
	traces  = map[*protocol.Protocol]*sendTrace{}
)

func init() {
	protocol.VerifTracer = func(p *protocol.Protocol, e protocol.VerifEvent) {
		if e.Id != handshake.ProtocolId {
			return
		}
		switch e.Ev {
		case "SegOut":
			traceMu.Lock()
			if t := traces[p]; t != nil {
				t.segOut++
			}
			traceMu.Unlock()
		case "Exit":
			if e.S1 == "send" {
				traceMu.Lock()
				if t := traces[p]; t != nil {
					t.sendExit = true
				}
				traceMu.Unlock()
			}
		}
	}
}

const TraceAvailable = true

func traceRegister(p *protocol.Protocol) {
	traceMu.Lock()
	traces[p] = &sendTrace{}
	traceMu.Unlock()
}

func traceForget(p *protocol.Protocol) {
	traceMu.Lock()
	delete(traces, p)
	traceMu.Unlock()
}

// traceNeverSent: the send loop has exited and never produced a segment.
func traceNeverSent(p *protocol.Protocol) bool {
	traceMu.Lock()
	defer traceMu.Unlock()
	t := traces[p]
	return t != nil && t.sendExit && t.segOut == 0
}
